From Coq Require Import Lia.
From CandidV Require Import model.Leb.
Open Scope N_scope.

Lemma low7_lt b : low7 b < 128.
Proof. unfold low7. apply N.mod_lt. lia. Qed.

Lemma lor_shiftl_add a b s : a < 2 ^ s -> N.lor a (N.shiftl b s) = a + b * 2 ^ s.
Proof.
  intros Ha.
  rewrite N.shiftl_mul_pow2.
  assert (Hl : N.land a (b * 2 ^ s) = 0).
  { apply N.bits_inj. intro i. rewrite N.land_spec, N.bits_0.
    destruct (N.lt_ge_cases i s) as [Hi|Hi].
    - rewrite N.mul_pow2_bits_low by exact Hi. apply andb_false_r.
    - destruct (N.eq_dec a 0) as [->|Hz]; [now rewrite N.bits_0|].
      rewrite (N.bits_above_log2 a i); [reflexivity|].
      apply N.log2_lt_pow2 in Ha; lia. }
  rewrite <- N.lxor_lor by exact Hl.
  symmetry. apply N.add_nocarry_lxor. exact Hl.
Qed.

Lemma lor_mul_add a b s : a < 2 ^ s -> N.lor a (b * 2 ^ s) = a + b * 2 ^ s.
Proof. intros H. rewrite <- (lor_shiftl_add a b s H). now rewrite N.shiftl_mul_pow2. Qed.

Lemma from_radix_app g1 g2 :
  from_radix (g1 ++ g2) = from_radix g1 + 128 ^ (N.of_nat (length g1)) * from_radix g2.
Proof.
  induction g1 as [|d g1 IH]; cbn [app from_radix length].
  - change (N.of_nat 0) with 0. rewrite N.pow_0_r. lia.
  - rewrite IH, Nat2N.inj_succ, N.pow_succ_r'. lia.
Qed.

Lemma groups_of_small_len k s : length (groups_of_small k s) = k.
Proof. revert s; induction k as [|k IH]; intros s; cbn; [reflexivity|now rewrite IH]. Qed.

Lemma from_radix_groups k s : s < 128 ^ (N.of_nat k) -> from_radix (groups_of_small k s) = s.
Proof.
  revert s; induction k as [|k IH]; intros s Hs.
  - cbn in *. lia.
  - cbn [groups_of_small from_radix]. rewrite IH.
    + pose proof (N.div_mod s 128). lia.
    + rewrite Nat2N.inj_succ, N.pow_succ_r' in Hs.
      apply N.div_lt_upper_bound; lia.
Qed.

Lemma terminated_cons b r : r <> [] -> terminated (b :: r) = cont b && terminated r.
Proof. destruct r; [congruence|reflexivity]. Qed.

Lemma collect_spec bs rest :
  terminated bs = true -> collect (bs ++ rest) = Some (map low7 bs, rest).
Proof.
  induction bs as [|b r IH]; [discriminate|].
  destruct r as [|b' r'].
  - cbn. intros H. apply negb_true_iff in H. now rewrite H.
  - intros H. rewrite terminated_cons in H by congruence.
    apply andb_true_iff in H as [Hc Ht].
    change ((b :: b' :: r') ++ rest) with (b :: ((b' :: r') ++ rest)).
    cbn [collect]. rewrite Hc, IH by exact Ht. reflexivity.
Qed.

Lemma from_radix_map_low7 bs : from_radix (map low7 bs) = leb_val bs.
Proof. induction bs as [|b r IH]; cbn; [reflexivity|now rewrite IH]. Qed.

Lemma pow128 k : 128 ^ (N.of_nat k) = 2 ^ (7 * N.of_nat k).
Proof. rewrite N.pow_mul_r. reflexivity. Qed.

Lemma loop_spec bs : forall rest small k,
  terminated bs = true ->
  small < 128 ^ (N.of_nat k) ->
  nat_decode_loop (bs ++ rest) small (7 * N.of_nat k) k
  = Ok (small + 128 ^ (N.of_nat k) * leb_val bs, rest).
Proof.
  induction bs as [|b r IH]; intros rest small k Ht Hs; [discriminate|].
  change ((b :: r) ++ rest) with (b :: (r ++ rest)).
  cbn [nat_decode_loop].
  pose proof (low7_lt b) as Hlow.
  set (shift := 7 * N.of_nat k) in *.
  destruct ((shift =? 0) || ((shift <? 64) && (low7 b <? 2 ^ (64 - shift)))) eqn:Hc.
  - assert (Hlor : N.lor small (N.shiftl (low7 b) shift) = small + low7 b * 128 ^ N.of_nat k).
    { rewrite pow128 in *. fold shift in Hs |- *. apply lor_shiftl_add. exact Hs. }
    rewrite Hlor.
    destruct r as [|b' r'].
    + cbn in Ht. apply negb_true_iff in Ht. rewrite Ht. cbn [leb_val]. f_equal. f_equal. lia.
    + rewrite terminated_cons in Ht by congruence. apply andb_true_iff in Ht as [Hcb Htr].
      rewrite Hcb.
      replace (shift + 7) with (7 * N.of_nat (S k)) by (unfold shift; lia).
      rewrite IH; [|exact Htr|].
      * f_equal. f_equal. cbn [leb_val]. fold (leb_val (b' :: r')).
        rewrite Nat2N.inj_succ, N.pow_succ_r'. lia.
      * rewrite Nat2N.inj_succ, N.pow_succ_r'. nia.
  - destruct r as [|b' r'].
    + cbn in Ht. apply negb_true_iff in Ht. rewrite Ht.
      rewrite from_radix_app, groups_of_small_len, from_radix_groups by exact Hs.
      cbn [from_radix leb_val app]. reflexivity.
    + rewrite terminated_cons in Ht by congruence. apply andb_true_iff in Ht as [Hcb Htr].
      rewrite Hcb.
      rewrite collect_spec by exact Htr.
      rewrite from_radix_app, groups_of_small_len, from_radix_groups by exact Hs.
      cbn [from_radix]. rewrite from_radix_map_low7. cbn [leb_val]. fold (leb_val (b' :: r')).
      f_equal.
Qed.

Theorem nat_decode_spec bs rest :
  terminated bs = true -> nat_decode (bs ++ rest) = Ok (leb_val bs, rest).
Proof.
  intros Ht. unfold nat_decode.
  change 0 with (7 * N.of_nat 0) at 2.
  rewrite loop_spec; [|exact Ht|change (N.of_nat 0) with 0; rewrite N.pow_0_r; lia].
  change (N.of_nat 0) with 0. rewrite N.pow_0_r. f_equal. f_equal. lia.
Qed.

(* ------------------------------------------------------------------ *)
(* split_leb: the first terminated prefix                              *)
Lemma split_leb_app bs rest : terminated bs = true -> split_leb (bs ++ rest) = Some (bs, rest).
Proof.
  induction bs as [|b r IH]; [discriminate|].
  destruct r as [|b' r'].
  - cbn. intros H. apply negb_true_iff in H. now rewrite H.
  - intros H. rewrite terminated_cons in H by congruence.
    apply andb_true_iff in H as [Hc Ht].
    change ((b :: b' :: r') ++ rest) with (b :: ((b' :: r') ++ rest)).
    cbn [split_leb]. rewrite Hc, IH by exact Ht. reflexivity.
Qed.

Lemma split_leb_sound bs : forall p rest, split_leb bs = Some (p, rest) -> bs = p ++ rest /\ terminated p = true.
Proof.
  induction bs as [|b r IH]; intros p rest H; [discriminate|].
  cbn [split_leb] in H. destruct (cont b) eqn:Hc.
  - destruct (split_leb r) as [[p' rest']|] eqn:Hs; [|discriminate].
    inversion H; subst. destruct (IH _ _ eq_refl) as [-> Ht]. split; [reflexivity|].
    destruct p' as [|x p'']; [discriminate|]. rewrite terminated_cons by congruence. now rewrite Hc.
  - inversion H; subst. split; [reflexivity|]. cbn. now rewrite Hc.
Qed.

(* no terminated prefix: every decoder reports an error (end of input) *)
Lemma nat_decode_loop_none bs : split_leb bs = None -> forall small shift k, nat_decode_loop bs small shift k = Err EMal.
Proof.
  induction bs as [|b r IH]; intros Hs small shift k; [reflexivity|].
  cbn [split_leb] in Hs. destruct (cont b) eqn:Hc; [|discriminate].
  destruct (split_leb r) as [[? ?]|] eqn:Hr; [discriminate|].
  cbn [nat_decode_loop]. rewrite Hc.
  destruct ((shift =? 0) || ((shift <? 64) && (low7 b <? 2 ^ (64 - shift)))).
  - apply IH. reflexivity.
  - assert (Hcol : collect r = None).
    { clear -Hr. induction r as [|x r IH]; [reflexivity|]. cbn [split_leb collect] in *.
      destruct (cont x); [|discriminate]. destruct (split_leb r) as [[? ?]|]; [discriminate|].
      now rewrite IH. }
    now rewrite Hcol.
Qed.
Theorem nat_decode_unterminated bs : split_leb bs = None -> nat_decode bs = Err EMal.
Proof. intros H. apply nat_decode_loop_none. exact H. Qed.

(* ------------------------------------------------------------------ *)
(* types/leb128.rs::decode_nat (u128)                                  *)
Lemma drain_eq bs cur :
  drain bs cur = if cont cur then match bs with [] => None | b :: r => drain r b end else Some bs.
Proof. destruct bs; reflexivity. Qed.

Lemma drain_terminated r rest : forall b, terminated (b :: r) = true -> exists x, drain (r ++ rest) b = Some x.
Proof.
  induction r as [|b' r' IH]; intros b H.
  - cbn in H. apply negb_true_iff in H. rewrite drain_eq, H. eauto.
  - rewrite terminated_cons in H by congruence. apply andb_true_iff in H as [Hc Ht].
    rewrite drain_eq, Hc. change ((b' :: r') ++ rest) with (b' :: (r' ++ rest)). apply IH. exact Ht.
Qed.

Lemma sat_add7_ge s : 127 <= s -> 127 <= sat_add7 s.
Proof. intros H. unfold sat_add7. destruct (s + 7 <? 2 ^ 32) eqn:E; [lia|]. cbv. discriminate. Qed.

Lemma leb_val_cons b r : leb_val (b :: r) = low7 b + 128 * leb_val r.
Proof. reflexivity. Qed.

Lemma nat128_tail m bs : forall rest result shift,
  terminated bs = true -> 127 <= shift ->
  decode_nat128_loop m (bs ++ rest) result shift
  = if leb_val bs =? 0 then Ok (result, rest) else Err EOther.
Proof.
  induction bs as [|b r IH]; intros rest result shift Ht Hs; [discriminate|].
  change ((b :: r) ++ rest) with (b :: (r ++ rest)). cbn [decode_nat128_loop].
  assert (E1 : shift <? 126 = false) by (apply N.ltb_ge; lia).
  assert (E2 : shift =? 126 = false) by (apply N.eqb_neq; lia).
  rewrite E1, E2. pose proof (low7_lt b) as Hl. rewrite leb_val_cons.
  destruct (low7 b =? 0) eqn:Hz; cbn [negb].
  - apply N.eqb_eq in Hz. rewrite Hz.
    assert (E3 : (if shift <? 128 then (do s <- shl_u m 128 0 shift; Ok (N.lor result s)) else Ok result) = Ok result).
    { destruct (shift <? 128) eqn:E; [|reflexivity]. unfold shl_u. rewrite E. cbn [bind].
      rewrite N.mul_0_l. unfold wrap_u. rewrite N.mod_0_l by (cbv; discriminate). now rewrite N.lor_0_r. }
    rewrite E3. cbn [bind].
    destruct r as [|b' r'].
    + cbn in Ht. apply negb_true_iff in Ht. rewrite Ht. reflexivity.
    + rewrite terminated_cons in Ht by congruence. apply andb_true_iff in Ht as [Hc Ht]. rewrite Hc.
      rewrite IH by (try exact Ht; apply sat_add7_ge; exact Hs).
      replace (0 + 128 * leb_val (b' :: r') =? 0) with (leb_val (b' :: r') =? 0); [reflexivity|].
      destruct (N.eqb_spec (leb_val (b' :: r')) 0) as [->|Hne]; [reflexivity|].
      symmetry. apply N.eqb_neq. lia.
  - apply N.eqb_neq in Hz.
    destruct (drain_terminated r rest b Ht) as [x Hx]. rewrite Hx.
    replace (low7 b + 128 * leb_val r =? 0) with false; [reflexivity|].
    symmetry. apply N.eqb_neq. lia.
Qed.

Lemma shl_u_small m low k : k <= 18 -> low < 128 -> (k = 18 -> low <= 3) ->
  shl_u m 128 low (7 * k) = Ok (low * 2 ^ (7 * k)).
Proof.
  intros Hk Hl H18. unfold shl_u.
  assert (E : 7 * k <? 128 = true) by (apply N.ltb_lt; lia). rewrite E.
  unfold wrap_u. rewrite N.mod_small; [reflexivity|].
  destruct (N.eq_dec k 18) as [->|Hne].
  - specialize (H18 eq_refl). change (7 * 18) with 126. change (2 ^ 128) with (4 * 2 ^ 126). nia.
  - assert (7 * k + 7 <= 126) by lia.
    assert (2 ^ (7 * k + 7) <= 2 ^ 126) by (apply N.pow_le_mono_r; lia).
    rewrite N.pow_add_r in H0. change (2 ^ 7) with 128 in H0.
    change (2 ^ 128) with (4 * 2 ^ 126). nia.
Qed.

Lemma nat128_head m bs : forall rest result k,
  terminated bs = true -> k <= 18 -> result < 2 ^ (7 * k) ->
  decode_nat128_loop m (bs ++ rest) result (7 * k)
  = if result + 2 ^ (7 * k) * leb_val bs <? 2 ^ 128 then Ok (result + 2 ^ (7 * k) * leb_val bs, rest) else Err EOther.
Proof.
  induction bs as [|b r IH]; intros rest result k Ht Hk Hr; [discriminate|].
  change ((b :: r) ++ rest) with (b :: (r ++ rest)). cbn [decode_nat128_loop].
  pose proof (low7_lt b) as Hl. rewrite leb_val_cons.
  assert (Hpow : 2 ^ (7 * k) <= 2 ^ 126) by (apply N.pow_le_mono_r; lia).
  assert (Hpos : 0 < 2 ^ (7 * k)) by (apply N.neq_0_lt_0, N.pow_nonzero; discriminate).
  change (2 ^ 128) with (4 * 2 ^ 126).
  destruct (N.eq_dec k 18) as [->|Hne].
  - (* the group at bit 126 *)
    change (7 * 18) with 126 in *. cbn [N.ltb N.eqb N.compare Pos.compare Pos.compare_cont Pos.eqb].
    change (126 <? 126) with false. change (126 =? 126) with true. cbn iota.
    destruct (low7 b <=? 3) eqn:Hf; cbn [negb].
    + apply N.leb_le in Hf.
      change (126 <? 128) with true. cbn iota.
      change 126 with (7 * 18) at 1. rewrite shl_u_small by (try lia; exact Hl). cbn [bind].
      change (7 * 18) with 126.
      assert (Hlor : N.lor result (low7 b * 2 ^ 126) = result + low7 b * 2 ^ 126).
      { apply lor_mul_add. exact Hr. }
      rewrite Hlor.
      destruct r as [|b' r'].
      * cbn in Ht. apply negb_true_iff in Ht. rewrite Ht. cbn [leb_val].
        replace (result + 2 ^ 126 * (low7 b + 128 * 0)) with (result + low7 b * 2 ^ 126) by lia.
        assert (E : result + low7 b * 2 ^ 126 <? 4 * 2 ^ 126 = true) by (apply N.ltb_lt; nia).
        now rewrite E.
      * rewrite terminated_cons in Ht by congruence. apply andb_true_iff in Ht as [Hc Ht]. rewrite Hc.
        change (sat_add7 126) with 133.
        rewrite nat128_tail by (try exact Ht; lia).
        destruct (N.eqb_spec (leb_val (b' :: r')) 0) as [E0|E0].
        -- rewrite E0.
           replace (result + 2 ^ 126 * (low7 b + 128 * 0)) with (result + low7 b * 2 ^ 126) by lia.
           assert (E : result + low7 b * 2 ^ 126 <? 4 * 2 ^ 126 = true) by (apply N.ltb_lt; nia).
           now rewrite E.
        -- assert (E : result + 2 ^ 126 * (low7 b + 128 * leb_val (b' :: r')) <? 4 * 2 ^ 126 = false)
             by (apply N.ltb_ge; nia).
           now rewrite E.
    + apply N.leb_gt in Hf.
      destruct (drain_terminated r rest b Ht) as [x Hx]. rewrite Hx.
      assert (E : result + 2 ^ 126 * (low7 b + 128 * leb_val r) <? 4 * 2 ^ 126 = false)
        by (apply N.ltb_ge; nia).
      now rewrite E.
  - assert (Hk' : k <= 17) by lia.
    assert (E1 : 7 * k <? 126 = true) by (apply N.ltb_lt; lia). rewrite E1. cbn [negb].
    assert (E2 : 7 * k <? 128 = true) by (apply N.ltb_lt; lia). rewrite E2.
    rewrite shl_u_small by (try lia; exact Hl). cbn [bind].
    assert (Hlor : N.lor result (low7 b * 2 ^ (7 * k)) = result + low7 b * 2 ^ (7 * k)).
    { apply lor_mul_add. exact Hr. }
    rewrite Hlor.
    assert (Hp1 : 2 ^ (7 * (k + 1)) = 128 * 2 ^ (7 * k)).
    { replace (7 * (k + 1)) with (7 + 7 * k) by lia. rewrite N.pow_add_r. reflexivity. }
    assert (Hle : 128 * 2 ^ (7 * k) <= 2 ^ 126).
    { rewrite <- Hp1. apply N.pow_le_mono_r; lia. }
    destruct r as [|b' r'].
    + cbn in Ht. apply negb_true_iff in Ht. rewrite Ht. cbn [leb_val].
      replace (result + 2 ^ (7 * k) * (low7 b + 128 * 0)) with (result + low7 b * 2 ^ (7 * k)) by lia.
      assert (E : result + low7 b * 2 ^ (7 * k) <? 4 * 2 ^ 126 = true) by (apply N.ltb_lt; nia).
      now rewrite E.
    + rewrite terminated_cons in Ht by congruence. apply andb_true_iff in Ht as [Hc Ht]. rewrite Hc.
      assert (Hs : sat_add7 (7 * k) = 7 * (k + 1)).
      { unfold sat_add7. assert (E : 7 * k + 7 <? 2 ^ 32 = true) by (apply N.ltb_lt; change (2^32) with 4294967296; lia).
        rewrite E. lia. }
      rewrite Hs, IH; [|exact Ht|lia|rewrite Hp1; nia].
      rewrite Hp1.
      replace (result + low7 b * 2 ^ (7 * k) + 128 * 2 ^ (7 * k) * leb_val (b' :: r'))
        with (result + 2 ^ (7 * k) * (low7 b + 128 * leb_val (b' :: r'))) by lia.
      reflexivity.
Qed.

Theorem decode_nat128_spec m bs rest :
  terminated bs = true ->
  decode_nat128 m (bs ++ rest) = if leb_val bs <? 2 ^ 128 then Ok (leb_val bs, rest) else Err EOther.
Proof.
  intros Ht. unfold decode_nat128. change 0 with (7 * 0) at 2.
  rewrite nat128_head; [|exact Ht|lia|cbn; lia].
  change (2 ^ (7 * 0)) with 1. rewrite N.add_0_l, N.mul_1_l. reflexivity.
Qed.

Lemma drain_none r : split_leb r = None -> forall b, cont b = true -> drain r b = None.
Proof.
  induction r as [|x r IH]; intros Hs b Hc; rewrite drain_eq, Hc; [reflexivity|].
  cbn [split_leb] in Hs. destruct (cont x) eqn:Hx; [|discriminate].
  destruct (split_leb r) as [[? ?]|] eqn:Hr; [discriminate|]. apply IH; [reflexivity|exact Hx].
Qed.

Lemma decode_nat128_loop_none m bs : split_leb bs = None -> forall result shift,
  decode_nat128_loop m bs result shift = Err EMal.
Proof.
  induction bs as [|b r IH]; intros Hs result shift; [reflexivity|].
  cbn [split_leb] in Hs. destruct (cont b) eqn:Hc; [|discriminate].
  destruct (split_leb r) as [[? ?]|] eqn:Hr; [discriminate|].
  cbn [decode_nat128_loop].
  destruct (negb _).
  - now rewrite (drain_none r Hr b Hc).
  - destruct (shift <? 128) eqn:E.
    + unfold shl_u. rewrite E. cbn [bind]. rewrite Hc. apply IH. reflexivity.
    + cbn [bind]. rewrite Hc. apply IH. reflexivity.
Qed.
Theorem decode_nat128_unterminated m bs : split_leb bs = None -> decode_nat128 m bs = Err EMal.
Proof. intros H. apply decode_nat128_loop_none. exact H. Qed.

(* ------------------------------------------------------------------ *)
(* encoders (unsigned)                                                 *)
Lemma pow128_succ k : 128 ^ (N.of_nat (S k)) = 128 * 128 ^ (N.of_nat k).
Proof. rewrite Nat2N.inj_succ, N.pow_succ_r'. reflexivity. Qed.

Lemma enc_u_fuel_spec f : forall n, n < 128 ^ (N.of_nat (S f)) ->
  leb_val (enc_u_fuel f n) = n /\ terminated (enc_u_fuel f n) = true.
Proof.
  induction f as [|f IH]; intros n Hn.
  - change (128 ^ N.of_nat 1) with 128 in Hn. cbn [enc_u_fuel leb_val terminated].
    unfold low7, cont. rewrite N.mod_mod by discriminate. rewrite (N.mod_small n 128) by exact Hn.
    split; [lia|]. apply negb_true_iff, N.leb_gt. exact Hn.
  - cbn [enc_u_fuel]. destruct (N.ltb_spec n 128) as [Hlt|Hge].
    + cbn [leb_val terminated]. unfold low7, cont. rewrite (N.mod_small n 128) by exact Hlt.
      split; [lia|]. apply negb_true_iff, N.leb_gt. exact Hlt.
    + rewrite pow128_succ in Hn.
      assert (Hd : n / 128 < 128 ^ N.of_nat (S f)) by (apply N.div_lt_upper_bound; lia).
      destruct (IH _ Hd) as [Hv Ht].
      assert (Hm : n mod 128 < 128) by (apply N.mod_lt; discriminate).
      assert (Hl : low7 (n mod 128 + 128) = n mod 128).
      { unfold low7. rewrite <- (N.mul_1_l 128) at 2. rewrite N.mod_add by discriminate.
        apply N.mod_small. exact Hm. }
      assert (Hc : cont (n mod 128 + 128) = true) by (unfold cont; apply N.leb_le; lia).
      split.
      * rewrite leb_val_cons, Hl, Hv. pose proof (N.div_mod n 128). lia.
      * destruct (enc_u_fuel f (n / 128)) as [|x xs] eqn:E; [discriminate|].
        rewrite terminated_cons by congruence. now rewrite Hc, Ht.
Qed.

Lemma size_bound n : n < 128 ^ (N.of_nat (S (N.to_nat (N.size n)))).
Proof.
  rewrite pow128. rewrite Nat2N.inj_succ, N2Nat.id.
  eapply N.lt_le_trans; [apply N.size_gt|]. apply N.pow_le_mono_r; lia.
Qed.

Theorem enc_u_value n : leb_val (enc_u n) = n.
Proof. apply enc_u_fuel_spec, size_bound. Qed.
Theorem enc_u_terminated n : terminated (enc_u n) = true.
Proof. apply enc_u_fuel_spec, size_bound. Qed.

Lemma enc_u_fuel_length f : forall n k, n < 128 ^ (N.of_nat (S f)) -> n < 128 ^ (N.of_nat (S k)) ->
  (length (enc_u_fuel f n) <= S k)%nat.
Proof.
  induction f as [|f IH]; intros n k Hf Hk; cbn [enc_u_fuel]; [cbn; lia|].
  destruct (N.ltb_spec n 128) as [Hlt|Hge]; [cbn; lia|].
  destruct k as [|k]; [change (128 ^ N.of_nat 1) with 128 in Hk; lia|].
  cbn [length]. apply le_n_S. apply IH.
  - rewrite pow128_succ in Hf. apply N.div_lt_upper_bound; lia.
  - rewrite pow128_succ in Hk. apply N.div_lt_upper_bound; lia.
Qed.

Lemma leb_val_bound bs : bs <> [] -> leb_val bs < 128 ^ (N.of_nat (length bs)).
Proof.
  induction bs as [|b r IH]; [congruence|]. intros _.
  rewrite leb_val_cons. cbn [length]. rewrite pow128_succ. pose proof (low7_lt b).
  destruct r as [|b' r']; [cbn; lia|].
  assert (leb_val (b' :: r') < 128 ^ N.of_nat (length (b' :: r'))) by (apply IH; congruence). lia.
Qed.

(* the encoder's output is no longer than any other string with the same value *)
Theorem enc_u_minimal bs : bs <> [] -> (length (enc_u (leb_val bs)) <= length bs)%nat.
Proof.
  intros Hne. destruct bs as [|b r]; [congruence|].
  unfold enc_u. apply enc_u_fuel_length; [apply size_bound|].
  apply (leb_val_bound (b :: r)). congruence.
Qed.

(* the leb128-crate loop (u64) and encode_nat (u128) are the spec encoder on their domains *)
Lemma write_unsigned_is_enc_u f : forall g v, v < 128 ^ (N.of_nat (S f)) -> v < 128 ^ (N.of_nat (S g)) ->
  write_unsigned_fuel (S f) v = enc_u_fuel g v.
Proof.
  induction f as [|f IH]; intros g v Hf Hg.
  - change (128 ^ N.of_nat 1) with 128 in Hf. cbn [write_unsigned_fuel].
    rewrite (N.div_small v 128) by exact Hf. cbn [N.eqb]. rewrite (N.mod_small v 128) by exact Hf.
    destruct g; cbn [enc_u_fuel]; [now rewrite N.mod_small|].
    apply N.ltb_lt in Hf. now rewrite Hf.
  - change (write_unsigned_fuel (S (S f)) v) with
      (if v / 128 =? 0 then [v mod 128] else (v mod 128 + 128) :: write_unsigned_fuel (S f) (v / 128)).
    destruct (N.eqb_spec (v / 128) 0) as [Hz|Hnz].
    + assert (Hlt : v < 128).
      { destruct (N.lt_ge_cases v 128); [assumption|].
        assert (1 <= v / 128) by (apply N.div_le_lower_bound; lia). lia. }
      rewrite (N.mod_small v 128) by exact Hlt.
      destruct g; cbn [enc_u_fuel]; [now rewrite N.mod_small|].
      apply N.ltb_lt in Hlt. now rewrite Hlt.
    + assert (Hge : 128 <= v).
      { destruct (N.lt_ge_cases v 128) as [H|H]; [|exact H]. rewrite N.div_small in Hnz by exact H. congruence. }
      destruct g as [|g]; [change (128 ^ N.of_nat 1) with 128 in Hg; lia|].
      cbn [enc_u_fuel]. apply N.ltb_ge in Hge. rewrite Hge. f_equal.
      apply IH.
      * rewrite pow128_succ in Hf. apply N.div_lt_upper_bound; lia.
      * rewrite pow128_succ in Hg. apply N.div_lt_upper_bound; lia.
Qed.

Theorem write_unsigned64_is_enc_u v : v < 2 ^ 64 -> write_unsigned64 v = enc_u v.
Proof.
  intros H. unfold write_unsigned64, enc_u. apply (write_unsigned_is_enc_u 9); [|apply size_bound].
  change (128 ^ N.of_nat 10) with (2 ^ 70). eapply N.lt_le_trans; [exact H|]. apply N.pow_le_mono_r; lia.
Qed.
Theorem encode_nat128_is_enc_u v : v < 2 ^ 128 -> encode_nat128 v = enc_u v.
Proof.
  intros H. unfold encode_nat128, enc_u. apply (write_unsigned_is_enc_u 18); [|apply size_bound].
  change (128 ^ N.of_nat 19) with (2 ^ 133). eapply N.lt_le_trans; [exact H|]. apply N.pow_le_mono_r; lia.
Qed.

(* Nat::encode: u64 shortcut, otherwise to_radix_le(128) with continuation bits *)
Lemma radix_is_enc_u f : forall g v, 0 < v -> v < 2 ^ (N.of_nat f) -> v < 128 ^ (N.of_nat (S g)) ->
  set_cont_but_last (radix_le_fuel f v) = enc_u_fuel g v.
Proof.
  induction f as [|f IH]; intros g v Hpos Hf Hg.
  - change (2 ^ N.of_nat 0) with 1 in Hf. lia.
  - cbn [radix_le_fuel]. assert (Hv : v =? 0 = false) by (apply N.eqb_neq; lia). rewrite Hv.
    destruct (N.lt_ge_cases v 128) as [Hlt|Hge].
    + assert (Hd : v / 128 = 0) by (apply N.div_small; exact Hlt).
      rewrite Hd. assert (Hr : radix_le_fuel f 0 = []) by (destruct f; reflexivity). rewrite Hr.
      cbn [set_cont_but_last]. rewrite N.mod_small by exact Hlt.
      destruct g; cbn [enc_u_fuel]; [now rewrite N.mod_small|].
      apply N.ltb_lt in Hlt. now rewrite Hlt.
    + assert (Hd : 0 < v / 128) by (apply N.div_str_pos; lia).
      assert (Hf' : v / 128 < 2 ^ N.of_nat f).
      { rewrite Nat2N.inj_succ, N.pow_succ_r' in Hf. apply N.div_lt_upper_bound; lia. }
      destruct g as [|g]; [change (128 ^ N.of_nat 1) with 128 in Hg; lia|].
      assert (Hg' : v / 128 < 128 ^ N.of_nat (S g)).
      { rewrite pow128_succ in Hg. apply N.div_lt_upper_bound; lia. }
      specialize (IH g (v / 128) Hd Hf' Hg').
      destruct (radix_le_fuel f (v / 128)) as [|d ds] eqn:E.
      * exfalso. destruct f; cbn [radix_le_fuel] in E.
        -- change (2 ^ N.of_nat 0) with 1 in Hf'. lia.
        -- assert (Hx : v / 128 =? 0 = false) by (apply N.eqb_neq; lia). rewrite Hx in E. discriminate.
      * change (set_cont_but_last (v mod 128 :: d :: ds)) with ((v mod 128 + 128) :: set_cont_but_last (d :: ds)).
        rewrite IH. cbn [enc_u_fuel]. apply N.ltb_ge in Hge. now rewrite Hge.
Qed.

Theorem nat_encode_is_enc_u v : nat_encode v = enc_u v.
Proof.
  unfold nat_encode. destruct (N.ltb_spec v (2 ^ 64)) as [Hlt|Hge].
  - apply write_unsigned64_is_enc_u. exact Hlt.
  - unfold to_radix_le128, enc_u. apply radix_is_enc_u.
    + eapply N.lt_le_trans; [|exact Hge]. reflexivity.
    + rewrite N2Nat.id. apply N.size_gt.
    + apply size_bound.
Qed.

(* ------------------------------------------------------------------ *)
(* de.rs fast path try_read_leb_u64 and its fall-back                  *)
Lemma try_read_u64_spec bs : forall rest result k,
  terminated bs = true -> k <= 8 -> result < 2 ^ (7 * k) ->
  try_read_u64 (bs ++ rest) result (7 * k)
  = if N.of_nat (length bs) + k <=? 9 then Ok (Some (result + 2 ^ (7 * k) * leb_val bs, rest)) else Ok None.
Proof.
  induction bs as [|b r IH]; intros rest result k Ht Hk Hr; [discriminate|].
  change ((b :: r) ++ rest) with (b :: (r ++ rest)). cbn [try_read_u64].
  pose proof (low7_lt b) as Hl.
  assert (Hp1 : 2 ^ (7 * (k + 1)) = 128 * 2 ^ (7 * k)).
  { replace (7 * (k + 1)) with (7 + 7 * k) by lia. rewrite N.pow_add_r. reflexivity. }
  assert (Hle : 128 * 2 ^ (7 * k) <= 2 ^ 63).
  { rewrite <- Hp1. apply N.pow_le_mono_r; lia. }
  assert (Hpos : 0 < 2 ^ (7 * k)) by (apply N.neq_0_lt_0, N.pow_nonzero; discriminate).
  assert (Hw : wrap_u 64 (low7 b * 2 ^ (7 * k)) = low7 b * 2 ^ (7 * k)).
  { unfold wrap_u. apply N.mod_small. change (2 ^ 64) with (2 * 2 ^ 63). nia. }
  rewrite Hw, lor_mul_add by exact Hr.
  destruct r as [|b' r'].
  - cbn in Ht. rewrite Ht. cbn [length leb_val].
    assert (E : N.of_nat 1 + k <=? 9 = true) by (apply N.leb_le; lia). rewrite E.
    do 3 f_equal. lia.
  - rewrite terminated_cons in Ht by congruence. apply andb_true_iff in Ht as [Hc Ht]. rewrite Hc.
    cbn [negb].
    destruct (N.leb_spec 63 (7 * k + 7)) as [Hb|Hb].
    + assert (k = 8) by lia. subst k.
      assert (E : N.of_nat (length (b :: b' :: r')) + 8 <=? 9 = false).
      { apply N.leb_gt. cbn [length]. lia. }
      now rewrite E.
    + replace (7 * k + 7) with (7 * (k + 1)) by lia.
      rewrite IH; [|exact Ht|lia|rewrite Hp1; nia].
      replace (N.of_nat (length (b :: b' :: r')) + k) with (N.of_nat (length (b' :: r')) + (k + 1))
        by (cbn [length]; lia).
      rewrite Hp1. rewrite (leb_val_cons b).
      replace (result + low7 b * 2 ^ (7 * k) + 128 * 2 ^ (7 * k) * leb_val (b' :: r'))
        with (result + 2 ^ (7 * k) * (low7 b + 128 * leb_val (b' :: r'))) by lia.
      reflexivity.
Qed.

Theorem de_nat_spec bs rest : terminated bs = true -> de_nat (bs ++ rest) = Ok (leb_val bs, rest).
Proof.
  intros Ht. unfold de_nat. change 0 with (7 * 0) at 2.
  rewrite try_read_u64_spec; [|exact Ht|lia|cbn; lia].
  destruct (N.of_nat (length bs) + 0 <=? 9); cbn [bind].
  - change (2 ^ (7 * 0)) with 1. rewrite N.add_0_l, N.mul_1_l. reflexivity.
  - apply nat_decode_spec. exact Ht.
Qed.
Theorem de_int_of_nat_spec bs rest : terminated bs = true -> de_int_of_nat (bs ++ rest) = Ok (Z.of_N (leb_val bs), rest).
Proof. intros Ht. unfold de_int_of_nat. rewrite de_nat_spec by exact Ht. reflexivity. Qed.
