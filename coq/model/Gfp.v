(* Gfp.v -- greatest fixed point of a monotone boolean operator on a finite universe, by iterated filtering. *)
From Coq Require Import List Bool.
Import ListNotations.
Section Gfp.
  Variable A : Type.
  Variable eqb : A -> A -> bool.
  Definition mem (l : list A) (x : A) : bool := existsb (eqb x) l.
  Variable F : (A -> bool) -> A -> bool.
  Definition round (l : list A) : list A := filter (F (mem l)) l.
  (* stop as soon as a round deletes nothing *)
  Fixpoint iter (n : nat) (l : list A) : list A :=
    match n with
    | O => l
    | S n' => let l' := round l in if Nat.eqb (length l') (length l) then l else iter n' l'
    end.
  Definition gfp (U : list A) : list A := iter (length U) U.
End Gfp.
