(* Check.v -- the type checker of .did programs (rust/candid_parser/src/typing.rs: check_decs, check_defs,
   check_cycle, validate_decs, check_actor) together with the uniqueness tests done by the grammar's actions
   (labels, method names), on programs already converted to the model's types. *)
From CandidV Require Export model.Sub.
Open Scope N_scope.

Fixpoint uniq_ids (ids : list N) : bool :=
  match ids with [] => true | i :: r => negb (existsb (N.eqb i) r) && uniq_ids r end.
Fixpoint uniq_names (ns : list name) : bool :=
  match ns with [] => true | n :: r => negb (existsb (name_eqb n) r) && uniq_names r end.

(* follow names (and, for the main actor, service constructors) to a function / service type *)
Definition as_func (E : env) (t : ty) : bool := match trace E t with Some (TFunc _ _ _) => true | _ => false end.
Fixpoint as_service_f (f : nat) (E : env) (t : ty) : bool :=
  match f with
  | O => false
  | S f' => match trace E t with
            | Some (TServ _) => true
            | Some (TClass _ t') => as_service_f f' E t'
            | _ => false
            end
  end.
Definition as_service (E : env) (t : ty) : bool := as_service_f 3 E t.

(* check_type: every name is bound, at most one annotation, oneway has no results, no service constructor inside,
   (when not in the pre pass) every method traces to a function; the grammar's uniqueness tests *)
Fixpoint check_type (E : env) (t : ty) : bool :=
  match t with
  | TPrim _ => true
  | TVar x => match lookup E x with Some _ => true | None => false end
  | TOpt t | TVec t => check_type E t
  | TRec fs | TVariant fs => forallb (fun f => check_type E (snd f)) fs && uniq_ids (map fst fs)
  | TFunc a r m =>
      forallb (check_type E) a && forallb (check_type E) r &&
      (Nat.leb (length m) 1) && (match m with [2] => match r with [] => true | _ => false end | _ => true end)
  | TServ ms => forallb (fun f => check_type E (snd f) && as_func E (snd f)) ms && uniq_names (map fst ms)
  | TClass _ _ => false
  | TFuture => false
  end.

(* no definition is vacuous: following names from it reaches a type constructor *)
Definition productive (E : env) : bool :=
  forallb (fun d => match trace E (TVar (fst d)) with Some _ => true | None => false end) E.

Definition check_decs (E : env) : bool :=
  uniq_names (map fst E) && forallb (fun d => check_type E (snd d)) E && productive E.

Definition check_actor (E : env) (a : option ty) : bool :=
  match a with
  | None => true
  | Some (TClass args t) => forallb (check_type E) args && check_type E t && as_service E t
  | Some t => check_type E t && as_service E t
  end.

Definition check_prog (E : env) (a : option ty) : bool := check_decs E && check_actor E a.
