(* Memo.v -- the memoising checkers of rust/candid/src/types/subtype.rs as they are: [subtype_] and [equal_impl].

   What is mirrored: the order of tests in one call (t1 == t2; a name on either side: look the pair up in gamma,
   insert it, push it on the trail, unfold the LEFT name first, forget_since(mark) when the unfolded pair fails;
   otherwise the structural arms in source order), the order in which premises are visited and the point at
   which a missing field / method / length mismatch ends the visit (state changes made before that point stay),
   the two probes of the special opt rule and what each OptReport does with their outcome, gamma as a set with
   insert / remove, the trail as a stack, a fresh trail for every top-level query and ONE gamma for a whole history.
   What is not: the stack guard (RecursionDepth) -- fuel is absorbing ([MFuel]) and excluded by the theorems --,
   Knot (Rust-native type ids), error texts, HashMap lookups of fields by id (modelled as first match; the same
   thing when ids are unique).  An unbound name or a cycle of names is `unwrap` on an error: [MPanic]. *)
From CandidV Require Export model.Sub.
Open Scope N_scope.

Inductive mres := MOk | MErr | MPanic | MFuel.
(* what one structural arm does: a list of premises to visit in order, interleaved with tests that end the visit *)
Inductive item := IPrem (q : pair) | IGuard (ok : bool).
Inductive plan := PItems (its : list item) | POptOpt (t1 t2 : ty) | POptAny (t2 : ty).

Definition mst := (list pair * list pair)%type.   (* gamma (a set), trail (newest first) *)
Definition gmem (g : list pair) (p : pair) : bool := mem pair pair_eqb g p.
Definition gremove (g : list pair) (p : pair) : list pair := filter (fun q => negb (pair_eqb p q)) g.
Definition forget_since (s : mst) (mark : nat) : mst :=
  let k := (length (snd s) - mark)%nat in
  (fold_left gremove (firstn k (snd s)) (fst s), skipn k (snd s)).
Definition tvarb (t : ty) : bool := match t with TVar _ => true | _ => false end.

Fixpoint run_items (c : mst -> ty -> ty -> mst * mres) (its : list item) (s : mst) {struct its} : mst * mres :=
  match its with
  | [] => (s, MOk)
  | IGuard true :: r => run_items c r s
  | IGuard false :: _ => (s, MErr)
  | IPrem q :: r => match c s (fst q) (snd q) with
                    | (s', MOk) => run_items c r s'
                    | o => o
                    end
  end.

Section Memo.
  Variable planf : env -> ty -> ty -> plan.
  Variable E : env.
  Variable strict : bool.       (* OptReport::Error *)

  Fixpoint chk (f : nat) (s : mst) (a b : ty) {struct f} : mst * mres :=
    match f with
    | O => (s, MFuel)
    | S f' =>
      if ty_eqb a b then (s, MOk)
      else if tvarb a || tvarb b then
        if gmem (fst s) (a, b) then (s, MOk)
        else
          let mark := length (snd s) in
          let s1 : mst := ((a, b) :: fst s, (a, b) :: snd s) in
          match (if tvarb a then match trace E a with Some a' => Some (a', b) | None => None end
                 else match trace E b with Some b' => Some (a, b') | None => None end) with
          | None => (s1, MPanic)
          | Some q =>
              match chk f' s1 (fst q) (snd q) with
              | (s2, MErr) => (forget_since s2 mark, MErr)
              | o => o
              end
          end
      else
        (* `(_, Opt(ty2)) if subtype_(t1, ty2).is_ok() && !matches!(trace(ty2), Null | Reserved | Opt(_))`,
           then the warning arm *)
        let second (s : mst) (t2 : ty) : mst * mres :=
            match chk f' s a t2 with
            | (s2, MOk) => (s2, if strict && optlike E t2 then MErr else MOk)
            | (s2, MErr) => (s2, if strict then MErr else MOk)
            | o => o
            end in
        match planf E a b with
        | PItems its => run_items (chk f') its s
        | POptOpt t1 t2 =>
            match chk f' s t1 t2 with
            | (s1, MOk) => (s1, MOk)
            | (s1, MErr) => second s1 t2
            | o => o
            end
        | POptAny t2 => second s t2
        end
    end.

  (* one top-level call: a fresh trail, the caller's gamma *)
  Definition query (f : nat) (g : list pair) (a b : ty) : list pair * mres :=
    let '((g', _), r) := chk f (g, []) a b in (g', r).
  (* a history of calls sharing one gamma *)
  Fixpoint history (f : nat) (g : list pair) (qs : list pair) : list pair * list mres :=
    match qs with
    | [] => (g, [])
    | q :: r => let '(g1, x) := query f g (fst q) (snd q) in
                let '(g2, xs) := history f g1 r in (g2, x :: xs)
    end.
End Memo.

(* ---------- subtype_: the structural arms, in source order (both sides are not names and differ) ---------- *)
Definition plan_sub (E : env) (a b : ty) : plan :=
  match a, b with
  | _, TPrim PReserved => PItems []
  | TPrim PEmpty, _ => PItems []
  | TPrim PNat, TPrim PInt => PItems []
  | TServ _, TPrim PPrincipal => PItems []
  | TVec x, TVec y => PItems [IPrem (x, y)]
  | TPrim PNull, TOpt _ => PItems []
  | TOpt t1, TOpt t2 => POptOpt t1 t2
  | _, TOpt t2 => POptAny t2
  | TRec f1, TRec f2 =>
      PItems (map (fun f => match find_field (fst f) f1 with
                            | Some t1 => IPrem (t1, snd f)
                            | None => IGuard (optlike E (snd f))
                            end) f2)
  | TVariant f1, TVariant f2 =>
      PItems (map (fun f => match find_field (fst f) f2 with
                            | Some t2 => IPrem (snd f, t2)
                            | None => IGuard false
                            end) f1)
  | TServ m1, TServ m2 =>
      PItems (map (fun m => match find_meth (fst m) m1 with
                            | Some t1 => IPrem (t1, snd m)
                            | None => IGuard false
                            end) m2)
  | TFunc a1 r1 m1, TFunc a2 r2 m2 =>
      if list_eqb N.eqb m1 m2 then PItems [IPrem (tuple a2, tuple a1); IPrem (tuple r1, tuple r2)]
      else PItems [IGuard false]
  | TClass _ t, _ => PItems [IPrem (t, b)]
  | _, TClass _ t => PItems [IPrem (a, t)]
  | _, _ => PItems [IGuard false]
  end.

(* ---------- equal_impl ---------- *)
Fixpoint zip_items {K} (keq : K -> K -> bool) (l1 l2 : list (K * ty)) : list item :=
  match l1, l2 with
  | (i, s) :: r1, (j, t) :: r2 => IGuard (keq i j) :: IPrem (s, t) :: zip_items keq r1 r2
  | _, _ => []
  end.
Definition zip_plan {K} (keq : K -> K -> bool) (l1 l2 : list (K * ty)) : plan :=
  if Nat.eqb (length l1) (length l2) then PItems (zip_items keq l1 l2) else PItems [IGuard false].
Definition plan_eq (E : env) (a b : ty) : plan :=
  match a, b with
  | TOpt x, TOpt y | TVec x, TVec y => PItems [IPrem (x, y)]
  | TRec f1, TRec f2 | TVariant f1, TVariant f2 => zip_plan N.eqb f1 f2
  | TServ m1, TServ m2 => zip_plan name_eqb m1 m2
  | TFunc a1 r1 m1, TFunc a2 r2 m2 =>
      if list_eqb N.eqb m1 m2 then PItems [IPrem (tuple a1, tuple a2); IPrem (tuple r1, tuple r2)]
      else PItems [IGuard false]
  | TClass i1 t1, TClass i2 t2 => PItems [IPrem (tuple i1, tuple i2); IPrem (t1, t2)]
  | _, _ => PItems [IGuard false]
  end.

Definition sub_history (E : env) (strict : bool) (f : nat) := history plan_sub E strict f.
Definition eq_history (E : env) (f : nat) := history plan_eq E false f.
