(* Hash.v -- the field-name hash of spec/Candid.md and the two copies in the code
   (rust/candid/src/lib.rs::idl_hash and rust/candid_derive/src/lib.rs::idl_hash),
   labels and their comparison (types/internal.rs::Label), check_unique (utils.rs)
   and the header parser's ascending-id test (binary_parser.rs). *)
From CandidV Require Export model.Base.
From CandidV Require Import Consts.
Open Scope N_scope.

(* --- specification: hash(id) = ( Sum_(i=0..k) utf8(id)[i] * 223^(k-i) ) mod 2^32 --- *)
Fixpoint hash_sum (bs : list N) : N :=
  match bs with
  | [] => 0
  | b :: r => b * 223 ^ (N.of_nat (length r)) + hash_sum r
  end.
Definition hash_spec (bs : list N) : N := hash_sum bs mod 2 ^ 32.

(* --- implementation: u<bits> accumulator, wrapping_mul(m).wrapping_add(c) per byte --- *)
Definition hash_step (m bits : N) (s c : N) : N := (s * m + c) mod 2 ^ bits.
Definition idl_hash_with (m bits : N) (bs : list N) : N := fold_left (hash_step m bits) bs 0.
Definition idl_hash : list N -> N := idl_hash_with hash_mult_candid hash_bits_candid.
Definition idl_hash_derive : list N -> N := idl_hash_with hash_mult_derive hash_bits_derive.

(* --- labels --- *)
Inductive label := LId (n : N) | LNamed (s : name) | LUnnamed (n : N).
Definition get_id (l : label) : N :=
  match l with LId n | LUnnamed n => n | LNamed s => idl_hash s end.
Definition label_eqb (a b : label) : bool := get_id a =? get_id b.
Definition label_cmp (a b : label) : comparison := get_id a ?= get_id b.
Definition label_hash (a : label) : N := get_id a.   (* state.write_u32(self.get_id()) *)

(* --- check_unique on a sorted sequence: adjacent equal => error --- *)
Fixpoint check_unique (prev : option N) (ids : list N) : bool :=
  match ids with
  | [] => true
  | i :: r => match prev with
              | Some p => if i =? p then false else check_unique (Some i) r
              | None => check_unique (Some i) r
              end
  end.

(* insertion sort by id: the model of sort_unstable_by_key(get_id) up to permutation of equal keys *)
Fixpoint insert_id (i : N) (l : list N) : list N :=
  match l with [] => [i] | j :: r => if i <=? j then i :: l else j :: insert_id i r end.
Fixpoint sort_ids (l : list N) : list N :=
  match l with [] => [] | i :: r => insert_id i (sort_ids r) end.
Definition unique_after_sort (ids : list N) : bool := check_unique None (sort_ids ids).

(* --- header parser: ids must be strictly ascending (prev >= id => error) --- *)
Fixpoint strictly_ascending (prev : option N) (ids : list N) : bool :=
  match ids with
  | [] => true
  | i :: r => match prev with
              | Some p => if i <=? p then false else strictly_ascending (Some i) r
              | None => strictly_ascending (Some i) r
              end
  end.
