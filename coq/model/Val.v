(* Val.v -- abstract Candid values and the typing judgement v : t (as a boolean function). *)
From CandidV Require Export model.Ty.
From CandidV Require Import model.Leb.
Open Scope N_scope.

Inductive val :=
| VNull | VReserved
| VBool (b : bool)
| VNat (n : N) | VInt (z : Z)
| VNatN (bits : N) (n : N)          (* nat8 nat16 nat32 nat64 *)
| VIntN (bits : N) (z : Z)          (* int8 .. int64 *)
| VFloat (bits : N) (pattern : N)   (* float32 / float64 as bit patterns: compared bit for bit *)
| VText (bs : list N)
| VOpt (o : option val)
| VVec (vs : list val)
| VRec (fs : list (N * val))        (* ascending field ids *)
| VVariant (i : N) (v : val)
| VPrincipal (bs : list N)
| VService (bs : list N)
| VFunc (bs : list N) (meth : list N).

(* UTF-8 validity as std::str::from_utf8 decides it (no surrogates, no overlong forms, <= U+10FFFF) *)
Fixpoint utf8_valid_f (f : nat) (bs : list N) : bool :=
  match f with O => match bs with [] => true | _ => false end | S f' =>
  match bs with
  | [] => true
  | b0 :: r =>
      if b0 <? 128 then utf8_valid_f f' r
      else if (194 <=? b0) && (b0 <=? 223) then
        match r with b1 :: r' => (128 <=? b1) && (b1 <=? 191) && utf8_valid_f f' r' | _ => false end
      else if (224 <=? b0) && (b0 <=? 239) then
        match r with
        | b1 :: b2 :: r' =>
            let lo := if b0 =? 224 then 160 else 128 in
            let hi := if b0 =? 237 then 159 else 191 in
            (lo <=? b1) && (b1 <=? hi) && (128 <=? b2) && (b2 <=? 191) && utf8_valid_f f' r'
        | _ => false end
      else if (240 <=? b0) && (b0 <=? 244) then
        match r with
        | b1 :: b2 :: b3 :: r' =>
            let lo := if b0 =? 240 then 144 else 128 in
            let hi := if b0 =? 244 then 143 else 191 in
            (lo <=? b1) && (b1 <=? hi) && (128 <=? b2) && (b2 <=? 191) && (128 <=? b3) && (b3 <=? 191) && utf8_valid_f f' r'
        | _ => false end
      else false
  end end.
Definition utf8_valid (bs : list N) : bool := bytes_ok bs && utf8_valid_f (length bs) bs.

Definition prim_bits (p : prim) : option (bool * N) :=    (* (signed?, bits) of the fixed-width integer types *)
  match p with
  | PNat8 => Some (false, 8) | PNat16 => Some (false, 16) | PNat32 => Some (false, 32) | PNat64 => Some (false, 64)
  | PInt8 => Some (true, 8) | PInt16 => Some (true, 16) | PInt32 => Some (true, 32) | PInt64 => Some (true, 64)
  | _ => None
  end.

Definition principal_ok (bs : list N) : bool := bytes_ok bs && (N.of_nat (length bs) <=? 29).

Fixpoint has_type (E : env) (v : val) (t : ty) {struct v} : bool :=
  match trace E t with
  | None => false
  | Some t' =>
    match v, t' with
    | VNull, TPrim PNull => true
    | VReserved, TPrim PReserved => true
    | VBool _, TPrim PBool => true
    | VNat _, TPrim PNat => true
    | VInt _, TPrim PInt => true
    | VNatN bits n, TPrim p => match prim_bits p with Some (false, b) => (bits =? b) && (n <? 2 ^ b) | _ => false end
    | VIntN bits z, TPrim p => match prim_bits p with
                               | Some (true, b) => (bits =? b) && (- 2 ^ (Z.of_N b - 1) <=? z)%Z && (z <? 2 ^ (Z.of_N b - 1))%Z
                               | _ => false end
    | VFloat 32 x, TPrim PFloat32 => x <? 2 ^ 32
    | VFloat 64 x, TPrim PFloat64 => x <? 2 ^ 64
    | VText bs, TPrim PText => utf8_valid bs
    | VOpt None, TOpt _ => true
    | VOpt (Some w), TOpt t1 => has_type E w t1
    | VVec vs, TVec t1 => forallb (fun w => has_type E w t1) vs
    | VRec fs, TRec ts =>
        (fix go (fs : list (N * val)) (ts : list (N * ty)) : bool :=
           match fs, ts with
           | [], [] => true
           | (i, w) :: fr, (j, tj) :: tr => (i =? j) && has_type E w tj && go fr tr
           | _, _ => false
           end) fs ts
    | VVariant i w, TVariant ts => match find_field i ts with Some ti => has_type E w ti | None => false end
    | VPrincipal bs, TPrim PPrincipal => principal_ok bs
    | VService bs, TServ _ => principal_ok bs
    | VFunc bs m, TFunc _ _ _ => principal_ok bs && utf8_valid m
    | _, _ => false
    end
  end.
