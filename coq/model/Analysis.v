(* Analysis.v -- rust/candid_parser/src/bindings/analysis.rs: the order in which the binding generators emit
   definitions (chase_type / chase_actor: depth-first post-order from the main service) and the set of names that
   must be declared recursive first (infer_rec), plus the JavaScript identifier escaping. *)
From CandidV Require Export model.Ty.
Open Scope N_scope.

(* the variable occurrences of a type, in the order chase_type / infer_rec::go visit them *)
Fixpoint vars (t : ty) : list name :=
  match t with
  | TVar x => [x]
  | TOpt t1 | TVec t1 => vars t1
  | TRec fs | TVariant fs => flat_map (fun f => vars (snd f)) fs
  | TFunc a r _ => flat_map vars a ++ flat_map vars r
  | TServ ms => flat_map (fun m => vars (snd m)) ms
  | TClass a t1 => flat_map vars a ++ vars t1
  | _ => []
  end.

Definition mem_name (x : name) (l : list name) : bool := existsb (name_eqb x) l.

(* chase_type over a work list of variable occurrences: [seen] and [res] as in the source; None = an unbound name *)
Fixpoint chase (f : nat) (E : env) (seen res : list name) (xs : list name) : option (list name * list name) :=
  match f with
  | O => None
  | S f' =>
    match xs with
    | [] => Some (seen, res)
    | x :: r =>
        if mem_name x seen then chase f' E seen res r
        else match lookup E x with
             | None => None
             | Some b =>
                 match chase f' E (x :: seen) res (vars b) with
                 | None => None
                 | Some (s1, r1) => chase f' E s1 (r1 ++ [x]) r
                 end
             end
    end
  end.
Definition esize (E : env) : nat := fold_right (fun d a => (length (vars (snd d)) + a)%nat) O E.
Definition chase_fuel (E : env) (xs : list name) : nat := (length xs + esize E + 2 * length E + 4)%nat.
Definition chase_actor (E : env) (t : ty) : option (list name) :=
  option_map snd (chase (chase_fuel E (vars t)) E [] [] (vars t)).

(* infer_rec: walk the definition list; a name met before its own definition has been passed (and not met before) is recursive *)
Fixpoint scan (seen rc : list name) (xs : list name) : list name * list name :=
  match xs with
  | [] => (seen, rc)
  | x :: r => if mem_name x seen then scan seen rc r else scan (x :: seen) (rc ++ [x]) r
  end.
Fixpoint infer_loop (E : env) (seen rc : list name) (defs : list name) : list name :=
  match defs with
  | [] => rc
  | d :: r =>
      let body := match lookup E d with Some b => vars b | None => [] end in
      let '(s1, rc1) := scan seen rc body in
      infer_loop E (d :: s1) rc1 r
  end.
Definition infer_rec (E : env) (defs : list name) : list name := infer_loop E [] [] defs.

(* ---------- JavaScript identifiers ---------- *)
Fixpoint strip_us_rev (l : list N) : list N := match l with 95 :: r => strip_us_rev r | _ => l end.   (* 95 = '_' *)
Definition trim_us (s : name) : name := rev (strip_us_rev (rev s)).
(* [kw] is the reserved-word table; the escaping appends one underscore to a reserved word followed by underscores *)
Definition js_ident (kw : list name) (s : name) : name := if mem_name (trim_us s) kw then s ++ [95] else s.
