(* Base.v -- shared executable vocabulary of the model: bytes, outcomes, small list helpers.
   Definitions only (no proofs) so that the model still runs when a proof breaks. *)
From Coq Require Export List NArith ZArith Bool.
Export ListNotations.
Open Scope N_scope.

Definition byte := N.
Definition bytes := list N.
Definition name := list N.          (* UTF-8 bytes of a name *)

Definition is_byte (b : N) : bool := b <? 256.
Definition bytes_ok (bs : list N) : bool := forallb is_byte bs.

(* Outcome of an operation of the implementation layer.  A debug-build panic is a value. *)
Inductive eclass := ESub | EMal | EQuota | EOther.
Inductive res (A : Type) :=
| Ok (a : A)
| Err (c : eclass)
| Panic
| OutOfFuel.
Arguments Ok {A}. Arguments Err {A}. Arguments Panic {A}. Arguments OutOfFuel {A}.

Definition bind {A B} (r : res A) (f : A -> res B) : res B :=
  match r with Ok a => f a | Err c => Err c | Panic => Panic | OutOfFuel => OutOfFuel end.
Notation "'do' x <- r ; k" := (bind r (fun x => k)) (at level 200, x pattern, r at level 100, k at level 200).

Definition is_ok {A} (r : res A) : bool := match r with Ok _ => true | _ => false end.

(* build mode: debug builds check arithmetic, release builds wrap *)
Inductive mode := Debug | Release.

Fixpoint list_eqb {A} (e : A -> A -> bool) (l1 l2 : list A) : bool :=
  match l1, l2 with
  | [], [] => true
  | a :: r1, b :: r2 => e a b && list_eqb e r1 r2
  | _, _ => false
  end.
Definition name_eqb : name -> name -> bool := list_eqb N.eqb.

(* lexicographic comparison of byte strings (Rust's str/[u8] Ord) *)
Fixpoint name_cmp (a b : name) : comparison :=
  match a, b with
  | [], [] => Eq
  | [], _ => Lt
  | _, [] => Gt
  | x :: r, y :: s => match x ?= y with Eq => name_cmp r s | c => c end
  end.
Definition name_ltb (a b : name) : bool := match name_cmp a b with Lt => true | _ => false end.

Fixpoint take {A} (n : nat) (l : list A) : list A :=
  match n, l with S n', x :: r => x :: take n' r | _, _ => [] end.
Fixpoint drop {A} (n : nat) (l : list A) : list A :=
  match n, l with S n', _ :: r => drop n' r | _, _ => l end.
