(* Sub.v -- the subtype relation of spec/Candid.md as ONE boolean rule function [stepb], the relation as
   the greatest fixed point of that function, and its decision procedure on the finite universe of
   sub-term pairs.  Likewise structural type equality ([eq_stepb], as types/subtype.rs::equal). *)
From CandidV Require Export model.Ty model.Gfp.
Open Scope N_scope.

(* "(a,b) follows by one rule of the spec from premises in S", on traced forms.
   The two "not" premises of the opt rules collapse to: anything <: opt anything (spec note; OptReport::Warning/Silence). *)
Definition stepb (E : env) (S : pair -> bool) (p : pair) : bool :=
  let (a, b) := p in
  ty_eqb a b ||
  match trace E a, trace E b with
  | Some a', Some b' =>
      ty_eqb a' b' ||
      match a', b' with
      | _, TPrim PReserved => true
      | TPrim PEmpty, _ => true
      | TPrim PNat, TPrim PInt => true
      | TServ _, TPrim PPrincipal => true
      | _, TOpt _ => true
      | TVec x, TVec y => S (x, y)
      | TRec f1, TRec f2 =>
          forallb (fun f => match find_field (fst f) f1 with
                            | Some t1 => S (t1, snd f)
                            | None => optlike E (snd f) end) f2
      | TVariant f1, TVariant f2 =>
          forallb (fun f => match find_field (fst f) f2 with
                            | Some t2 => S (snd f, t2)
                            | None => false end) f1
      | TServ m1, TServ m2 =>
          forallb (fun m => match find_meth (fst m) m1 with
                            | Some t1 => S (t1, snd m)
                            | None => false end) m2
      | TFunc a1 r1 m1, TFunc a2 r2 m2 =>
          list_eqb N.eqb m1 m2 && S (tuple a2, tuple a1) && S (tuple r1, tuple r2)
      | TClass _ t, _ => S (t, b')
      | _, TClass _ t => S (a', t)
      | _, _ => false
      end
  | _, _ => false
  end.

Definition universe (E : env) (a b : ty) : list pair :=
  let ns := nodes E [a; b] in list_prod ns ns.

Definition sub_dec (E : env) (a b : ty) : bool :=
  mem pair pair_eqb (gfp pair pair_eqb (stepb E) (universe E a b)) (a, b).

(* the relation itself: the greatest relation closed under [stepb] *)
Definition Sub (E : env) (a b : ty) : Prop :=
  exists R : pair -> Prop, R (a, b) /\
    forall p, R p -> exists S : pair -> bool, (forall q, S q = true -> R q) /\ stepb E S p = true.

(* structural equality up to unfolding of names: one rule function as well *)
Fixpoint zipb {A B} (f : A -> B -> bool) (l1 : list A) (l2 : list B) : bool :=
  match l1, l2 with
  | [], [] => true
  | a :: r1, b :: r2 => f a b && zipb f r1 r2
  | _, _ => false
  end.
Definition eq_stepb (E : env) (S : pair -> bool) (p : pair) : bool :=
  let (a, b) := p in
  ty_eqb a b ||
  match trace E a, trace E b with
  | Some a', Some b' =>
      ty_eqb a' b' ||
      match a', b' with
      | TOpt x, TOpt y | TVec x, TVec y => S (x, y)
      | TRec f1, TRec f2 | TVariant f1, TVariant f2 =>
          zipb (fun f g => (fst f =? fst g) && S (snd f, snd g)) f1 f2
      | TServ m1, TServ m2 =>
          zipb (fun f g => name_eqb (fst f) (fst g) && S (snd f, snd g)) m1 m2
      | TFunc a1 r1 m1, TFunc a2 r2 m2 =>
          list_eqb N.eqb m1 m2 && S (tuple a1, tuple a2) && S (tuple r1, tuple r2)
      | TClass i1 t1, TClass i2 t2 => S (tuple i1, tuple i2) && S (t1, t2)
      | _, _ => false
      end
  | _, _ => false
  end.
Definition eq_universe (E : env) (a b : ty) : list pair :=
  let ns := nodes E [a; b] ++ flat_map (fun t => match t with TClass i _ => [tuple i] | _ => [] end) (nodes E [a; b]) in
  list_prod ns ns.
Definition eq_dec (E : env) (a b : ty) : bool :=
  mem pair pair_eqb (gfp pair pair_eqb (eq_stepb E) (eq_universe E a b)) (a, b).
Definition TyEq (E : env) (a b : ty) : Prop :=
  exists R : pair -> Prop, R (a, b) /\
    forall p, R p -> exists S : pair -> bool, (forall q, S q = true -> R q) /\ eq_stepb E S p = true.
