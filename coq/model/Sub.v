(* Sub.v -- the subtype relation of spec/Candid.md as ONE rule function [rule]: given a pair of types it
   answers "holds outright", "fails outright" or "holds provided these premise pairs hold" (one rule of the
   spec applied to the traced forms).  The relation is the greatest fixed point of that function; [sub_dec]
   decides it on the finite universe of sub-term pairs.  Likewise structural type equality
   ([eq_rule], as types/subtype.rs::equal). *)
From CandidV Require Export model.Ty model.Gfp.
Open Scope N_scope.

Inductive verdict := VTrue | VFalse | VPrem (qs : list pair).

(* The two "not" premises of the opt rules collapse to: anything <: opt anything (spec note; OptReport::Warning/Silence). *)
Definition arms (E : env) (a' b' : ty) : verdict :=      (* the structural rules, on traced forms *)
  match a', b' with
  | _, TPrim PReserved => VTrue
  | TPrim PEmpty, _ => VTrue
  | TPrim PNat, TPrim PInt => VTrue
  | TServ _, TPrim PPrincipal => VTrue
  | _, TOpt _ => VTrue
  | TVec x, TVec y => VPrem [(x, y)]
  | TRec f1, TRec f2 =>
      (* every expected field is present (premise) or absent and of an optional type *)
      if forallb (fun f => match find_field (fst f) f1 with Some _ => true | None => optlike E (snd f) end) f2
      then VPrem (flat_map (fun f => match find_field (fst f) f1 with Some t1 => [(t1, snd f)] | None => [] end) f2)
      else VFalse
  | TVariant f1, TVariant f2 =>
      if forallb (fun f => match find_field (fst f) f2 with Some _ => true | None => false end) f1
      then VPrem (flat_map (fun f => match find_field (fst f) f2 with Some t2 => [(snd f, t2)] | None => [] end) f1)
      else VFalse
  | TServ m1, TServ m2 =>
      if forallb (fun m => match find_meth (fst m) m1 with Some _ => true | None => false end) m2
      then VPrem (flat_map (fun m => match find_meth (fst m) m1 with Some t1 => [(t1, snd m)] | None => [] end) m2)
      else VFalse
  | TFunc a1 r1 m1, TFunc a2 r2 m2 =>
      if list_eqb N.eqb m1 m2 then VPrem [(tuple a2, tuple a1); (tuple r1, tuple r2)] else VFalse
  | TClass _ t, _ => VPrem [(t, b')]
  | _, TClass _ t => VPrem [(a', t)]
  | _, _ => VFalse
  end.
Definition rule (E : env) (p : pair) : verdict :=
  let (a, b) := p in
  if ty_eqb a b then VTrue else
  match trace E a, trace E b with
  | Some a', Some b' => if ty_eqb a' b' then VTrue else arms E a' b'
  | _, _ => VFalse
  end.

Definition apply_rule (v : verdict) (S : pair -> bool) : bool :=
  match v with VTrue => true | VFalse => false | VPrem qs => forallb S qs end.

(* "(a,b) follows by one rule application from premises in S" *)
Definition stepb (E : env) (S : pair -> bool) (p : pair) : bool := apply_rule (rule E p) S.

Definition universe (E : env) (a b : ty) : list pair :=
  let ns := nodes E [a; b] in list_prod ns ns.

Definition sub_dec (E : env) (a b : ty) : bool :=
  mem pair pair_eqb (gfp pair pair_eqb (stepb E) (universe E a b)) (a, b).

(* a faster decision procedure: the universe is the set of pairs reachable from (a,b) through premises;
   it is used only when it is verified (by [closedb]) to be closed under premises, else the full universe is *)
Definition prems (E : env) (p : pair) : list pair := match rule E p with VPrem qs => qs | _ => [] end.
Fixpoint reach (f : nat) (E : env) (todo seen : list pair) : list pair :=
  match f with
  | O => seen
  | S f' =>
      match todo with
      | [] => seen
      | p :: r => if mem pair pair_eqb seen p then reach f' E r seen
                  else reach f' E (prems E p ++ r) (p :: seen)
      end
  end.
Definition closedb (E : env) (U : list pair) : bool :=
  forallb (fun p => forallb (mem pair pair_eqb U) (prems E p)) U.
Definition reach_fuel (E : env) (a b : ty) : nat :=
  let n := length (nodes E [a; b]) in (4 * n * n + 16)%nat.
Definition sub_dec_fast (E : env) (a b : ty) : bool :=
  let U := reach (reach_fuel E a b) E [(a, b)] [] in
  if closedb E U && mem pair pair_eqb U (a, b)
  then mem pair pair_eqb (gfp pair pair_eqb (stepb E) U) (a, b)
  else sub_dec E a b.

(* the relation itself: the greatest relation closed under the rule function *)
Definition Sub (E : env) (a b : ty) : Prop :=
  exists R : pair -> Prop, R (a, b) /\
    forall p, R p -> exists S : pair -> bool, (forall q, S q = true -> R q) /\ stepb E S p = true.

(* ---------- structural equality up to unfolding of names ---------- *)
Fixpoint zip_fields {K} (keq : K -> K -> bool) (l1 l2 : list (K * ty)) : option (list pair) :=
  match l1, l2 with
  | [], [] => Some []
  | (i, s) :: r1, (j, t) :: r2 =>
      if keq i j then match zip_fields keq r1 r2 with Some qs => Some ((s, t) :: qs) | None => None end else None
  | _, _ => None
  end.
Definition eq_rule (E : env) (p : pair) : verdict :=
  let (a, b) := p in
  if ty_eqb a b then VTrue else
  match trace E a, trace E b with
  | Some a', Some b' =>
      if ty_eqb a' b' then VTrue else
      match a', b' with
      | TOpt x, TOpt y | TVec x, TVec y => VPrem [(x, y)]
      | TRec f1, TRec f2 | TVariant f1, TVariant f2 =>
          match zip_fields N.eqb f1 f2 with Some qs => VPrem qs | None => VFalse end
      | TServ m1, TServ m2 =>
          match zip_fields name_eqb m1 m2 with Some qs => VPrem qs | None => VFalse end
      | TFunc a1 r1 m1, TFunc a2 r2 m2 =>
          if list_eqb N.eqb m1 m2 then VPrem [(tuple a1, tuple a2); (tuple r1, tuple r2)] else VFalse
      | TClass i1 t1, TClass i2 t2 => VPrem [(tuple i1, tuple i2); (t1, t2)]
      | _, _ => VFalse
      end
  | _, _ => VFalse
  end.
Definition eq_stepb (E : env) (S : pair -> bool) (p : pair) : bool := apply_rule (eq_rule E p) S.
Definition eq_dec (E : env) (a b : ty) : bool :=
  mem pair pair_eqb (gfp pair pair_eqb (eq_stepb E) (universe E a b)) (a, b).
Definition TyEq (E : env) (a b : ty) : Prop :=
  exists R : pair -> Prop, R (a, b) /\
    forall p, R p -> exists S : pair -> bool, (forall q, S q = true -> R q) /\ eq_stepb E S p = true.
