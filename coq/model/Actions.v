(* Actions.v -- semantic actions of the text grammars whose arithmetic can go wrong (grammar.lalrpop, token.rs):
   numbering of record fields with the tuple shorthand (value and type grammar, after the repair: checked increment),
   followed by sorting and the uniqueness test. *)
From CandidV Require Export model.Hash.
Open Scope N_scope.

Inductive flabel := FId (n : N) | FNamed (s : name) | FUnnamed.

Definition next_of (i : N) : option N := if i + 1 <? 2 ^ 32 then Some (i + 1) else None.   (* u32::checked_add(1) *)

Fixpoint assign_ids (next : option N) (ls : list flabel) : option (list N) :=
  match ls with
  | [] => Some []
  | FUnnamed :: r =>
      match next with
      | None => None                                           (* "field id out of u32 range" *)
      | Some cur => match assign_ids (next_of cur) r with Some ids => Some (cur :: ids) | None => None end
      end
  | FId i :: r => match assign_ids (next_of i) r with Some ids => Some (i :: ids) | None => None end
  | FNamed s :: r => let i := idl_hash s in match assign_ids (next_of i) r with Some ids => Some (i :: ids) | None => None end
  end.

Definition record_ids (ls : list flabel) : option (list N) :=
  match assign_ids (Some 0) ls with
  | Some ids => if unique_after_sort ids then Some (sort_ids ids) else None
  | None => None
  end.
