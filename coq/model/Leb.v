(* Leb.v -- (S)LEB128: the specification (values of byte strings, minimal encoders) and mirrors of every
   codec in the code:
     leb128 crate write::{unsigned,signed} (u64/i64), types/leb128.rs {encode,decode}_{nat,int} (u128/i128),
     types/number.rs Nat::{encode,decode}, Int::{encode,decode} (64-bit fast path + radix repacking),
     de.rs try_read_leb_{u64,i64} and their fall-backs in deserialize_{nat,int}.
   Machine arithmetic is explicit (wrap / range tests); a debug-build panic is the outcome Panic. *)
From CandidV Require Export model.Base.
Open Scope N_scope.

Definition low7 (b : N) : N := b mod 128.
Definition cont (b : N) : bool := 128 <=? b.

(* ---------- specification ---------- *)
Fixpoint leb_val (bs : list N) : N :=
  match bs with [] => 0 | b :: r => low7 b + 128 * leb_val r end.

Fixpoint sleb_val (bs : list N) : Z :=
  match bs with
  | [] => 0%Z
  | [b] => if 64 <=? low7 b then (Z.of_N (low7 b) - 128)%Z else Z.of_N (low7 b)
  | b :: r => (Z.of_N (low7 b) + 128 * sleb_val r)%Z
  end.

(* a terminated string: continuation bit on every byte but the last *)
Fixpoint terminated (bs : list N) : bool :=
  match bs with
  | [] => false
  | [b] => negb (cont b)
  | b :: r => cont b && terminated r
  end.

(* split a byte string at its first terminated prefix *)
Fixpoint split_leb (bs : list N) : option (list N * list N) :=
  match bs with
  | [] => None
  | b :: r => if cont b then
                match split_leb r with Some (p, rest) => Some (b :: p, rest) | None => None end
              else Some ([b], r)
  end.

(* minimal encoders of the spec *)
Fixpoint enc_u_fuel (f : nat) (n : N) : list N :=
  match f with
  | O => [n mod 128]
  | S f' => if n <? 128 then [n] else (n mod 128 + 128) :: enc_u_fuel f' (n / 128)
  end.
Definition enc_u (n : N) : list N := enc_u_fuel (N.to_nat (N.size n)) n.

Definition zmod128 (z : Z) : N := Z.to_N (z mod 128).
Fixpoint enc_s_fuel (f : nat) (z : Z) : list N :=
  let b := zmod128 z in
  let z' := (z / 128)%Z in
  let done := ((z' =? 0)%Z && (b <? 64)) || ((z' =? -1)%Z && (64 <=? b)) in
  match f with
  | O => [b]
  | S f' => if done then [b] else (b + 128) :: enc_s_fuel f' z'
  end.
Definition enc_s (z : Z) : list N := enc_s_fuel (N.to_nat (N.size (Z.abs_N z)) + 1) z.

(* ---------- machine words ---------- *)
Definition wrap_u (bits : N) (n : N) : N := n mod 2 ^ bits.
Definition wrap_s (bits : N) (z : Z) : Z :=
  (((z + 2 ^ (Z.of_N bits - 1)) mod 2 ^ Z.of_N bits) - 2 ^ (Z.of_N bits - 1))%Z.
(* x << s on an unsigned word of [bits] bits; s >= bits panics in debug and masks the amount in release *)
Definition shl_u (m : mode) (bits : N) (x s : N) : res N :=
  if s <? bits then Ok (wrap_u bits (x * 2 ^ s))
  else match m with Debug => Panic | Release => Ok (wrap_u bits (x * 2 ^ (s mod bits))) end.
Definition shl_s (m : mode) (bits : N) (x : Z) (s : N) : res Z :=
  if s <? bits then Ok (wrap_s bits (x * 2 ^ Z.of_N s))
  else match m with Debug => Panic | Release => Ok (wrap_s bits (x * 2 ^ Z.of_N (s mod bits))) end.

(* ---------- leb128 crate: write::unsigned (u64) and types/leb128.rs::encode_nat (u128): same loop ---------- *)
Fixpoint write_unsigned_fuel (f : nat) (v : N) : list N :=
  match f with
  | O => []
  | S f' => let byte := v mod 128 in
            let v' := v / 128 in
            if v' =? 0 then [byte] else (byte + 128) :: write_unsigned_fuel f' v'
  end.
(* 64-bit values need at most 10 groups, 128-bit values at most 19 *)
Definition write_unsigned64 (v : N) : list N := write_unsigned_fuel 10 v.
Definition encode_nat128 (v : N) : list N := write_unsigned_fuel 19 v.

(* leb128 crate write::signed (i64) and encode_int (i128): byte = val as u8; val >>= 6; done = val==0||val==-1; ... *)
Fixpoint write_signed_fuel (f : nat) (v : Z) : list N :=
  match f with
  | O => []
  | S f' => let byte := Z.to_N (v mod 256) in
            let v6 := (v / 64)%Z in
            if (v6 =? 0)%Z || (v6 =? -1)%Z then [byte mod 128]
            else (byte mod 128 + 128) :: write_signed_fuel f' (v6 / 2)%Z
  end.
Definition write_signed64 (v : Z) : list N := write_signed_fuel 10 v.
Definition encode_int128 (v : Z) : list N := write_signed_fuel 19 v.

(* ---------- Nat::encode ---------- *)
(* num-bigint to_radix_le(128) of a non-zero value: base-128 digits, least significant first, no trailing zero digit *)
Fixpoint radix_le_fuel (f : nat) (v : N) : list N :=
  match f with
  | O => []
  | S f' => if v =? 0 then [] else (v mod 128) :: radix_le_fuel f' (v / 128)
  end.
Definition to_radix_le128 (v : N) : list N := radix_le_fuel (N.to_nat (N.size v)) v.
Fixpoint set_cont_but_last (g : list N) : list N :=
  match g with
  | [] => []
  | [d] => [d]
  | d :: r => (d + 128) :: set_cont_but_last r
  end.
Definition nat_encode (v : N) : list N :=
  if v <? 2 ^ 64 then write_unsigned64 v else set_cont_but_last (to_radix_le128 v).

(* ---------- Int::encode ---------- *)
(* num-bigint to_signed_bytes_le: the minimal two's-complement little-endian byte string *)
Fixpoint bytes_le_fuel (f : nat) (v : N) : list N :=
  match f with O => [] | S f' => (v mod 256) :: bytes_le_fuel f' (v / 256) end.
Fixpoint signed_len (f : nat) (k : nat) (v : Z) : nat :=          (* least k>=1 with -2^(8k-1) <= v < 2^(8k-1) *)
  match f with
  | O => k
  | S f' => let h := (2 ^ (8 * Z.of_nat k - 1))%Z in
            if ((- h <=? v) && (v <? h))%Z then k else signed_len f' (S k) v
  end.
Definition to_signed_bytes_le (v : Z) : list N :=
  let k := signed_len (N.to_nat (N.size (Z.abs_N v))) 1 v in
  bytes_le_fuel k (Z.to_N (v mod 2 ^ (8 * Z.of_nat k))).
Definition bit_of (x : N) (k : N) : N := if N.testbit x k then 1 else 0.
Definition int_encode_big (v : Z) : list N :=
  let bytes := to_signed_bytes_le v in
  let nb := N.of_nat (length bytes) in
  let sign_bit := (nth (length bytes - 1) bytes 0) / 128 in
  (* highest bit position that differs from the sign bit, +1 (0 = none): an N-encoding of the isize high_diff *)
  let total := 8 * nb in
  let bit_at (p : N) : N := if p <? total then bit_of (nth (N.to_nat (p / 8)) bytes 0) (p mod 8) else sign_bit in
  let high_diff1 :=
    (fix find (k : nat) : N :=
       match k with
       | O => 0
       | S k' => if bit_at (N.of_nat k') =? sign_bit then find k' else N.of_nat k
       end) (N.to_nat total) in
  (fix loop (f : nat) (shift : N) : list N :=
     match f with
     | O => []
     | S f' =>
         let group := fold_right (fun k acc => acc + bit_at (shift + k) * 2 ^ k) 0 [0;1;2;3;4;5;6] in
         let shift' := shift + 7 in
         (* (shift as isize) > high_diff  <=>  shift' >= high_diff1 *)
         if (high_diff1 <=? shift') && (group / 64 =? sign_bit) then [group mod 128]
         else (group mod 128 + 128) :: loop f' shift'
     end) (N.to_nat total + 2)%nat 0.
Definition int_encode (v : Z) : list N :=
  if ((- 2 ^ 63 <=? v) && (v <? 2 ^ 63))%Z then write_signed64 v else int_encode_big v.

(* ---------- Nat::decode ---------- *)
Fixpoint collect (bs : list N) : option (list N * list N) :=
  match bs with
  | [] => None
  | b :: r => if cont b then
                match collect r with Some (g, rest) => Some (low7 b :: g, rest) | None => None end
              else Some ([low7 b], r)
  end.
Fixpoint groups_of_small (k : nat) (small : N) : list N :=
  match k with O => [] | S k' => (small mod 128) :: groups_of_small k' (small / 128) end.
Fixpoint from_radix (g : list N) : N :=                 (* BigUint::from_radix_le(_, 128) *)
  match g with [] => 0 | d :: r => d + 128 * from_radix r end.

(* state: small (u64), shift (u32, multiple of 7), k = shift/7 *)
Fixpoint nat_decode_loop (bs : list N) (small : N) (shift : N) (k : nat) : res (N * list N) :=
  match bs with
  | [] => Err EMal
  | b :: r =>
      let low := low7 b in
      if (shift =? 0) || ((shift <? 64) && (low <? 2 ^ (64 - shift))) then
        let small' := N.lor small (N.shiftl low shift) in
        if cont b then nat_decode_loop r small' (shift + 7) (S k)
        else Ok (small', r)
      else
        if cont b then
          match collect r with
          | Some (g, rest) => Ok (from_radix (groups_of_small k small ++ low :: g), rest)
          | None => Err EMal
          end
        else Ok (from_radix (groups_of_small k small ++ [low]), r)
  end.
Definition nat_decode (bs : list N) : res (N * list N) := nat_decode_loop bs 0 0 O.

(* ---------- Int::decode ---------- *)
Definition asr (z : Z) (s : N) : Z := (z / 2 ^ Z.of_N s)%Z.      (* arithmetic shift right *)
Fixpoint groups_of_small_z (k : nat) (small : Z) : list N :=
  match k with O => [] | S k' => Z.to_N (small mod 128) :: groups_of_small_z k' (small / 128)%Z end.
Fixpoint collect_last (bs : list N) (last : N) : option (list N * N * list N) :=
  (* while last & 0x80: read, push low7; returns (groups, last byte, rest) *)
  if cont last then
    match bs with
    | [] => None
    | b :: r => match collect_last r b with
                | Some (g, l, rest) => Some (low7 b :: g, l, rest)
                | None => None
                end
    end
  else Some ([], last, bs).

Fixpoint int_decode_loop (bs : list N) (small : Z) (shift : N) (k : nat) : res (Z * list N) :=
  match bs with
  | [] => Err EMal
  | b :: r =>
      let low := Z.of_N (low7 b) in
      let fits :=
        if shift <? 57 then true
        else if (shift <? 64) && negb (cont b) then
          let remaining := 64 - shift in
          if 64 <=? low7 b then (asr (low - 128) (remaining - 1) =? -1)%Z
          else (asr low (remaining - 1) =? 0)%Z
        else false in
      if fits then
        (* small |= low_bits << shift  (i64; shift < 64 here) *)
        let small' := Z.lor small (wrap_s 64 (low * 2 ^ Z.of_N shift)) in
        let shift' := shift + 7 in
        if cont b then int_decode_loop r small' shift' (S k)
        else
          let small'' := if (shift' <? 64) && (64 <=? low7 b)
                         then Z.lor small' (wrap_s 64 (-1 * 2 ^ Z.of_N shift')) else small' in
          Ok (small'', r)
      else
        match collect_last r b with
        | None => Err EMal
        | Some (g, last, rest) =>
            let groups := groups_of_small_z k small ++ low7 b :: g in
            let mag := Z.of_N (from_radix groups) in
            let v := if 64 <=? low7 last then (mag - 2 ^ (7 * Z.of_nat (length groups)))%Z else mag in
            Ok (v, rest)
        end
  end.
Definition int_decode (bs : list N) : res (Z * list N) := int_decode_loop bs 0 0 O.

(* ---------- types/leb128.rs::decode_nat (u128) ---------- *)
Fixpoint drain (bs : list N) (cur : N) : option (list N) :=   (* while cur & 0x80 { read } *)
  if cont cur then match bs with [] => None | b :: r => drain r b end else Some bs.

(* shift is a u32 with saturating_add(7) *)
Definition sat_add7 (shift : N) : N := if shift + 7 <? 2 ^ 32 then shift + 7 else 2 ^ 32 - 1.

Fixpoint decode_nat128_loop (m : mode) (bs : list N) (result shift : N) : res (N * list N) :=
  match bs with
  | [] => Err EMal
  | b :: r =>
      let low := low7 b in
      let fits := if shift <? 126 then true else if shift =? 126 then low <=? 3 else low =? 0 in
      if negb fits then
        match drain r b with Some _ => Err EOther | None => Err EMal end
      else
        do result' <- (if shift <? 128 then
                         do s <- shl_u m 128 low shift; Ok (N.lor result s)
                       else Ok result);
        if cont b then decode_nat128_loop m r result' (sat_add7 shift) else Ok (result', r)
  end.
Definition decode_nat128 (m : mode) (bs : list N) : res (N * list N) := decode_nat128_loop m bs 0 0.

(* ---------- types/leb128.rs::decode_int (i128) ---------- *)
Fixpoint decode_int128_loop (m : mode) (bs : list N) (result : Z) (shift : N) : res (Z * list N) :=
  match bs with
  | [] => Err EMal
  | b :: r =>
      let low := low7 b in
      let fits := if shift <? 126 then true
                  else if shift =? 126 then (low / 2 =? 0) || (low / 2 =? 63)
                  else low =? (if (result <? 0)%Z then 127 else 0) in
      if negb fits then
        match drain r b with Some _ => Err EOther | None => Err EMal end
      else
        do result' <- (if shift <? 128 then
                         do s <- shl_s m 128 (Z.of_N low) shift; Ok (Z.lor result s)
                       else Ok result);
        let shift' := sat_add7 shift in
        if cont b then decode_int128_loop m r result' shift'
        else
          if (shift' <? 128) && (64 <=? low) then
            do s <- shl_s m 128 (-1) shift'; Ok (Z.lor result' s, r)
          else Ok (result', r)
  end.
Definition decode_int128 (m : mode) (bs : list N) : res (Z * list N) := decode_int128_loop m bs 0 0.

(* ---------- de.rs fast paths ---------- *)
(* try_read_leb_u64: Err on end of input, Ok None to bail out (value may not fit), Ok (Some (v, rest)) *)
Fixpoint try_read_u64 (bs : list N) (result shift : N) : res (option (N * list N)) :=
  match bs with
  | [] => Err EMal
  | b :: r =>
      let result' := N.lor result (wrap_u 64 (low7 b * 2 ^ shift)) in
      if negb (cont b) then Ok (Some (result', r))
      else let shift' := shift + 7 in
           if 63 <=? shift' then Ok None else try_read_u64 r result' shift'
  end.
Fixpoint try_read_i64 (bs : list N) (result : Z) (shift : N) : res (option (Z * list N)) :=
  match bs with
  | [] => Err EMal
  | b :: r =>
      let result' := Z.lor result (wrap_s 64 (Z.of_N (low7 b) * 2 ^ Z.of_N shift)) in
      let shift' := shift + 7 in
      if negb (cont b) then
        let result'' := if 64 <=? low7 b then Z.lor result' (wrap_s 64 (-1 * 2 ^ Z.of_N shift')) else result' in
        Ok (Some (result'', r))
      else if 63 <=? shift' then Ok None else try_read_i64 r result' shift'
  end.

(* deserialize_nat (typed): fast path, else rewind and Nat::decode *)
Definition de_nat (bs : list N) : res (N * list N) :=
  do f <- try_read_u64 bs 0 0;
  match f with Some vr => Ok vr | None => nat_decode bs end.
(* deserialize_int with wire type int / nat *)
Definition de_int (bs : list N) : res (Z * list N) :=
  do f <- try_read_i64 bs 0 0;
  match f with Some vr => Ok vr | None => int_decode bs end.
Definition de_int_of_nat (bs : list N) : res (Z * list N) :=
  do vr <- de_nat bs; Ok (Z.of_N (fst vr), snd vr).
