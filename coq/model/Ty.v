(* Ty.v -- Candid types as a nested inductive, environments, boolean equality, name tracing. *)
From CandidV Require Export model.Base.
Open Scope N_scope.

Inductive prim := PNull | PBool | PNat | PInt | PNat8 | PNat16 | PNat32 | PNat64
  | PInt8 | PInt16 | PInt32 | PInt64 | PFloat32 | PFloat64 | PText | PReserved | PEmpty | PPrincipal.

Inductive ty :=
| TPrim (p : prim)
| TVar (x : name)
| TOpt (t : ty)
| TVec (t : ty)
| TRec (fs : list (N * ty))
| TVariant (fs : list (N * ty))
| TFunc (args rets : list ty) (modes : list N)      (* modes: 1 query, 2 oneway, 3 composite_query *)
| TServ (ms : list (name * ty))
| TClass (args : list ty) (t : ty)
| TFuture.

Definition env := list (name * ty).

Definition prim_eqb (a b : prim) : bool :=
  match a, b with
  | PNull,PNull | PBool,PBool | PNat,PNat | PInt,PInt | PNat8,PNat8 | PNat16,PNat16 | PNat32,PNat32
  | PNat64,PNat64 | PInt8,PInt8 | PInt16,PInt16 | PInt32,PInt32 | PInt64,PInt64 | PFloat32,PFloat32
  | PFloat64,PFloat64 | PText,PText | PReserved,PReserved | PEmpty,PEmpty | PPrincipal,PPrincipal => true
  | _, _ => false
  end.

Fixpoint ty_eqb (a b : ty) {struct a} : bool :=
  match a, b with
  | TPrim p, TPrim q => prim_eqb p q
  | TVar x, TVar y => name_eqb x y
  | TOpt s, TOpt t => ty_eqb s t
  | TVec s, TVec t => ty_eqb s t
  | TRec f1, TRec f2 | TVariant f1, TVariant f2 =>
      (fix go (l1 l2 : list (N * ty)) : bool :=
         match l1, l2 with
         | [], [] => true
         | (i, s) :: r1, (j, t) :: r2 => (i =? j) && ty_eqb s t && go r1 r2
         | _, _ => false
         end) f1 f2
  | TFunc a1 r1 m1, TFunc a2 r2 m2 =>
      (fix go (l1 l2 : list ty) : bool :=
         match l1, l2 with [], [] => true | s :: x, t :: y => ty_eqb s t && go x y | _, _ => false end) a1 a2
      && (fix go (l1 l2 : list ty) : bool :=
         match l1, l2 with [], [] => true | s :: x, t :: y => ty_eqb s t && go x y | _, _ => false end) r1 r2
      && list_eqb N.eqb m1 m2
  | TServ m1, TServ m2 =>
      (fix go (l1 l2 : list (name * ty)) : bool :=
         match l1, l2 with
         | [], [] => true
         | (i, s) :: r1, (j, t) :: r2 => name_eqb i j && ty_eqb s t && go r1 r2
         | _, _ => false
         end) m1 m2
  | TClass a1 s, TClass a2 t =>
      (fix go (l1 l2 : list ty) : bool :=
         match l1, l2 with [], [] => true | s :: x, t :: y => ty_eqb s t && go x y | _, _ => false end) a1 a2
      && ty_eqb s t
  | TFuture, TFuture => true
  | _, _ => false
  end.

Fixpoint lookup (E : env) (x : name) : option ty :=
  match E with [] => None | (y, t) :: r => if name_eqb x y then Some t else lookup r x end.

(* follow names until a type constructor is reached; None on an undefined name or a cycle of names *)
Fixpoint trace_f (f : nat) (E : env) (t : ty) : option ty :=
  match t with
  | TVar x => match f with
              | O => None
              | S f' => match lookup E x with Some t' => trace_f f' E t' | None => None end
              end
  | _ => Some t
  end.
Definition trace (E : env) (t : ty) : option ty := trace_f (S (length E)) E t.

Definition optlike (E : env) (t : ty) : bool :=
  match trace E t with
  | Some (TOpt _) | Some (TPrim PNull) | Some (TPrim PReserved) => true
  | _ => false
  end.

Fixpoint find_field (i : N) (fs : list (N * ty)) : option ty :=
  match fs with [] => None | (j, t) :: r => if i =? j then Some t else find_field i r end.
Fixpoint find_meth (n : name) (ms : list (name * ty)) : option ty :=
  match ms with [] => None | (m, t) :: r => if name_eqb n m then Some t else find_meth n r end.

Fixpoint tuple_from (i : N) (ts : list ty) : list (N * ty) :=
  match ts with [] => [] | t :: r => (i, t) :: tuple_from (i + 1) r end.
Definition tuple (ts : list ty) : ty := TRec (tuple_from 0 ts).

Definition pair := (ty * ty)%type.
Definition pair_eqb (p q : pair) : bool := ty_eqb (fst p) (fst q) && ty_eqb (snd p) (snd q).

(* sub-terms (with the tuple-wrappings of argument lists) *)
Fixpoint subterms (t : ty) : list ty :=
  t :: match t with
       | TOpt x | TVec x => subterms x
       | TRec fs | TVariant fs => flat_map (fun f => subterms (snd f)) fs
       | TFunc a r _ => tuple a :: tuple r :: flat_map subterms a ++ flat_map subterms r
       | TServ ms => flat_map (fun f => subterms (snd f)) ms
       | TClass a x => tuple a :: flat_map subterms a ++ subterms x
       | _ => []
       end.
Definition nodes (E : env) (ts : list ty) : list ty :=
  flat_map subterms ts ++ flat_map (fun d => TVar (fst d) :: subterms (snd d)) E.
