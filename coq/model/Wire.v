(* Wire.v -- the binary format of spec/Candid.md: M (value encoding) and its inverse at a given type, and the
   header (magic, type table, argument types) as parsed by rust/candid/src/binary_parser.rs, including the
   validation rules and replace_empty. *)
From CandidV Require Export model.Val.
From CandidV Require Import Consts model.Leb model.Hash model.Gfp.
Open Scope N_scope.

(* ---------- little-endian fixed width ---------- *)
Fixpoint le_bytes (k : nat) (n : N) : list N :=
  match k with O => [] | S k' => (n mod 256) :: le_bytes k' (n / 256) end.
Fixpoint le_val (bs : list N) : N :=
  match bs with [] => 0 | b :: r => b + 256 * le_val r end.
Definition nbytes (bits : N) : nat := N.to_nat (bits / 8).

(* a generous cap on element counts so that the model terminates on hostile counts of zero-sized elements;
   the checks never feed it more (DESIGN.md: within_limits) *)
Definition max_count : N := 2000000.

(* ---------- M : value -> bytes, at a type ---------- *)
Fixpoint index_of (i : N) (ts : list (N * ty)) (k : N) : option (N * ty) :=
  match ts with [] => None | (j, t) :: r => if i =? j then Some (k, t) else index_of i r (k + 1) end.

Definition principal_bytes (bs : list N) : list N := 1 :: enc_u (N.of_nat (length bs)) ++ bs.

Fixpoint enc_val (E : env) (v : val) (t : ty) {struct v} : option (list N) :=
  match trace E t with
  | None => None
  | Some t' =>
    match v, t' with
    | VNull, TPrim PNull => Some []
    | VReserved, TPrim PReserved => Some []
    | VBool b, TPrim PBool => Some [if b then 1 else 0]
    | VNat n, TPrim PNat => Some (enc_u n)
    | VInt z, TPrim PInt => Some (enc_s z)
    | VNatN bits n, TPrim p =>
        match prim_bits p with Some (false, b) => if (bits =? b) then Some (le_bytes (nbytes b) n) else None | _ => None end
    | VIntN bits z, TPrim p =>
        match prim_bits p with Some (true, b) => if (bits =? b) then Some (le_bytes (nbytes b) (Z.to_N (z mod 2 ^ Z.of_N b))) else None | _ => None end
    | VFloat 32 x, TPrim PFloat32 => Some (le_bytes 4 x)
    | VFloat 64 x, TPrim PFloat64 => Some (le_bytes 8 x)
    | VText bs, TPrim PText => if N.of_nat (length bs) <? 2 ^ 64 then Some (enc_u (N.of_nat (length bs)) ++ bs) else None
    | VOpt None, TOpt _ => Some [0]
    | VOpt (Some w), TOpt t1 => match enc_val E w t1 with Some b => Some (1 :: b) | None => None end
    | VVec vs, TVec t1 =>
        match (fix go (vs : list val) : option (list N) :=
           match vs with
           | [] => Some []
           | w :: r => match enc_val E w t1, go r with Some b, Some br => Some (b ++ br) | _, _ => None end
           end) vs with
        | Some b => if N.of_nat (length vs) <=? max_count then Some (enc_u (N.of_nat (length vs)) ++ b) else None
        | None => None
        end
    | VRec fs, TRec ts =>
        (fix go (fs : list (N * val)) (ts : list (N * ty)) : option (list N) :=
           match fs, ts with
           | [], [] => Some []
           | (i, w) :: fr, (j, tj) :: tr =>
               if i =? j then match enc_val E w tj, go fr tr with Some b, Some br => Some (b ++ br) | _, _ => None end else None
           | _, _ => None
           end) fs ts
    | VVariant i w, TVariant ts =>
        match index_of i ts 0 with
        | Some (k, ti) => match enc_val E w ti with Some b => if k <? 2 ^ 64 then Some (enc_u k ++ b) else None | None => None end
        | None => None
        end
    | VPrincipal bs, TPrim PPrincipal => Some (principal_bytes bs)
    | VService bs, TServ _ => Some (principal_bytes bs)
    | VFunc bs m, TFunc _ _ _ =>
        if N.of_nat (length m) <? 2 ^ 64 then Some (1 :: principal_bytes bs ++ enc_u (N.of_nat (length m)) ++ m) else None
    | _, _ => None
    end
  end.

(* ---------- numbers in the header and in lengths: the leb128 crate's 64-bit readers ---------- *)
(* unsigned: a terminated string of at most 10 bytes whose value fits u64; signed likewise for i64 *)
Definition read_u64 (bs : list N) : res (N * list N) :=
  match split_leb bs with
  | Some (p, rest) => if (N.of_nat (length p) <=? 10) && (leb_val p <? 2 ^ 64) then Ok (leb_val p, rest) else Err EMal
  | None => Err EMal
  end.
Definition read_i64 (bs : list N) : res (Z * list N) :=
  match split_leb bs with
  | Some (p, rest) =>
      if (N.of_nat (length p) <=? 10) && (- 2 ^ 63 <=? sleb_val p)%Z && (sleb_val p <? 2 ^ 63)%Z then Ok (sleb_val p, rest) else Err EMal
  | None => Err EMal
  end.

Definition take_bytes (k : N) (bs : list N) : res (list N * list N) :=
  if k <=? N.of_nat (length bs) then Ok (firstn (N.to_nat k) bs, skipn (N.to_nat k) bs) else Err EMal.


(* ---------- M^-1 : bytes -> value, at a type ---------- *)
Definition dec_principal_bytes (bs : list N) : res (list N * list N) :=
  match bs with
  | 1 :: r =>
      do lr <- read_u64 r;
      if fst lr <=? principal_max_len then take_bytes (fst lr) (snd lr) else Err EMal
  | _ => Err EMal
  end.

Fixpoint dec_val (f : nat) (E : env) (t : ty) (bs : list N) {struct f} : res (val * list N) :=
  match f with
  | O => OutOfFuel
  | S f' =>
    match trace E t with
    | None => Err EOther
    | Some t' =>
      match t' with
      | TPrim PNull => Ok (VNull, bs)
      | TPrim PReserved => Ok (VReserved, bs)
      | TPrim PEmpty => Err EMal
      | TPrim PBool => match bs with 0 :: r => Ok (VBool false, r) | 1 :: r => Ok (VBool true, r) | _ => Err EMal end
      | TPrim PNat => match split_leb bs with Some (p, r) => Ok (VNat (leb_val p), r) | None => Err EMal end
      | TPrim PInt => match split_leb bs with Some (p, r) => Ok (VInt (sleb_val p), r) | None => Err EMal end
      | TPrim PText =>
          do lr <- read_u64 bs;
          do sr <- take_bytes (fst lr) (snd lr);
          if utf8_valid (fst sr) then Ok (VText (fst sr), snd sr) else Err EMal
      | TPrim PPrincipal => do pr <- dec_principal_bytes bs; Ok (VPrincipal (fst pr), snd pr)
      | TPrim p =>
          match prim_bits p with
          | Some (sg, b) =>
              do xr <- take_bytes (b / 8) bs;
              let n := le_val (fst xr) in
              if sg then Ok (VIntN b (if n <? 2 ^ (b - 1) then Z.of_N n else (Z.of_N n - 2 ^ Z.of_N b)%Z), snd xr)
              else Ok (VNatN b n, snd xr)
          | None =>
              match p with
              | PFloat32 => do xr <- take_bytes 4 bs; Ok (VFloat 32 (le_val (fst xr)), snd xr)
              | PFloat64 => do xr <- take_bytes 8 bs; Ok (VFloat 64 (le_val (fst xr)), snd xr)
              | _ => Err EOther
              end
          end
      | TOpt t1 =>
          match bs with
          | 0 :: r => Ok (VOpt None, r)
          | 1 :: r => do wr <- dec_val f' E t1 r; Ok (VOpt (Some (fst wr)), snd wr)
          | _ => Err EMal
          end
      | TVec t1 =>
          do lr <- read_u64 bs;
          if max_count <? fst lr then Err EOther else
          do vr <- (fix go (k : nat) (bs : list N) : res (list val * list N) :=
             match k with
             | O => Ok ([], bs)
             | S k' => do wr <- dec_val f' E t1 bs; do rr <- go k' (snd wr); Ok (fst wr :: fst rr, snd rr)
             end) (N.to_nat (fst lr)) (snd lr);
          Ok (VVec (fst vr), snd vr)
      | TRec ts =>
          do vr <- (fix go (ts : list (N * ty)) (bs : list N) : res (list (N * val) * list N) :=
             match ts with
             | [] => Ok ([], bs)
             | (i, ti) :: tr => do wr <- dec_val f' E ti bs; do rr <- go tr (snd wr); Ok ((i, fst wr) :: fst rr, snd rr)
             end) ts bs;
          Ok (VRec (fst vr), snd vr)
      | TVariant ts =>
          do ir <- read_u64 bs;
          if fst ir <? N.of_nat (length ts) then
            match nth_error ts (N.to_nat (fst ir)) with
            | Some (i, ti) => do wr <- dec_val f' E ti (snd ir); Ok (VVariant i (fst wr), snd wr)
            | None => Err EMal
            end
          else Err EMal
      | TFuture =>
          (* a value of a type from a future version of the format: its length, its number of references, its bytes; skipped,
             and null to a reader with no expectation *)
          do lr <- read_u64 bs; do nr <- read_u64 (snd lr); do sr <- take_bytes (fst lr) (snd nr); Ok (VNull, snd sr)
      | TServ _ => do pr <- dec_principal_bytes bs; Ok (VService (fst pr), snd pr)
      | TFunc _ _ _ =>
          match bs with
          | 1 :: r =>
              do pr <- dec_principal_bytes r;
              do lr <- read_u64 (snd pr);
              do mr <- take_bytes (fst lr) (snd lr);
              if utf8_valid (fst mr) then Ok (VFunc (fst pr) (fst mr), snd mr) else Err EMal
          | _ => Err EMal
          end
      | _ => Err EOther
      end
    end
  end.

(* ---------- the header ---------- *)
Inductive rawty :=                       (* a type reference in the table: primitive opcode or table index *)
| RPrim (p : prim) | RIdx (i : N).
Inductive rawentry :=
| EOpt (r : rawty) | EVec (r : rawty)
| ERec (fs : list (N * rawty)) | EVariant (fs : list (N * rawty))
| EFunc (args rets : list rawty) (modes : list N)
| EServ (ms : list (name * rawty))
| EFuture.

Definition prim_of_code (c : N) : option prim :=   (* c = -opcode *)
  if c =? op_null then Some PNull else if c =? op_bool then Some PBool else if c =? op_nat then Some PNat
  else if c =? op_int then Some PInt else if c =? op_nat8 then Some PNat8 else if c =? op_nat16 then Some PNat16
  else if c =? op_nat32 then Some PNat32 else if c =? op_nat64 then Some PNat64 else if c =? op_int8 then Some PInt8
  else if c =? op_int16 then Some PInt16 else if c =? op_int32 then Some PInt32 else if c =? op_int64 then Some PInt64
  else if c =? op_float32 then Some PFloat32 else if c =? op_float64 then Some PFloat64 else if c =? op_text then Some PText
  else if c =? op_reserved then Some PReserved else if c =? op_empty then Some PEmpty
  else if c =? op_principal then Some PPrincipal else None.

(* IndexType: sleb i64, accepted iff >= -17 or = -24 *)
Definition read_index (bs : list N) : res (rawty * list N) :=
  do ir <- read_i64 bs;
  let i := fst ir in
  if (0 <=? i)%Z then Ok (RIdx (Z.to_N i), snd ir)
  else match prim_of_code (Z.to_N (- i)) with
       | Some p => Ok (RPrim p, snd ir)
       | None => Err EMal
       end.

Fixpoint read_n {A} (rd : list N -> res (A * list N)) (k : nat) (bs : list N) : res (list A * list N) :=
  match k with
  | O => Ok ([], bs)
  | S k' => do xr <- rd bs; do rr <- read_n rd k' (snd xr); Ok (fst xr :: fst rr, snd rr)
  end.
(* every element read by [read_n] below consumes at least one byte: a count larger than the remaining input
   is bound to hit the end of input (this also keeps the conversion to nat small) *)
Definition read_nN {A} (rd : list N -> res (A * list N)) (k : N) (bs : list N) : res (list A * list N) :=
  if N.of_nat (length bs) <? k then Err EMal else read_n rd (N.to_nat k) bs.
Definition read_count (bs : list N) : res (N * list N) := read_u64 bs.
Definition read_u32 (bs : list N) : res (N * list N) :=
  do lr <- read_u64 bs; if fst lr <? 2 ^ 32 then Ok lr else Err EMal.

Definition read_field (bs : list N) : res ((N * rawty) * list N) :=
  do ir <- read_u32 bs; do tr <- read_index (snd ir); Ok ((fst ir, fst tr), snd tr).
Definition read_fields (bs : list N) : res (list (N * rawty) * list N) :=
  do lr <- read_u32 bs; read_nN read_field (fst lr) (snd lr).
Definition read_meth (bs : list N) : res ((name * rawty) * list N) :=
  do lr <- read_count bs; do nr <- take_bytes (fst lr) (snd lr);
  if utf8_valid (fst nr) then do tr <- read_index (snd nr); Ok ((fst nr, fst tr), snd tr) else Err EMal.
Definition read_mode (bs : list N) : res (N * list N) :=
  match bs with m :: r => if (1 <=? m) && (m <=? 3) then Ok (m, r) else Err EMal | [] => Err EMal end.

Definition read_entry (bs : list N) : res (rawentry * list N) :=
  match bs with
  | [] => Err EMal
  | b :: r =>
      if b =? 128 - op_opt then do x <- read_index r; Ok (EOpt (fst x), snd x)
      else if b =? 128 - op_vec then do x <- read_index r; Ok (EVec (fst x), snd x)
      else if b =? 128 - op_record then do x <- read_fields r; Ok (ERec (fst x), snd x)
      else if b =? 128 - op_variant then do x <- read_fields r; Ok (EVariant (fst x), snd x)
      else if b =? 128 - op_func then
        do na <- read_count r; do a <- read_nN read_index (fst na) (snd na);
        do nr <- read_count (snd a); do rt <- read_nN read_index (fst nr) (snd nr);
        match snd rt with
        | [] => Err EMal
        | n :: r' => if n <=? 1 then do m <- read_n read_mode (N.to_nat n) r'; Ok (EFunc (fst a) (fst rt) (fst m), snd m) else Err EMal
        end
      else if b =? 128 - op_service then
        do n <- read_count r; do ms <- read_nN read_meth (fst n) (snd n); Ok (EServ (fst ms), snd ms)
      else
        (* future type: sleb opcode < -24, leb length, that many bytes *)
        do oc <- read_i64 bs;
        if (fst oc <? -24)%Z then do l <- read_u64 (snd oc); do bl <- take_bytes (fst l) (snd l); Ok (EFuture, snd bl) else Err EMal
  end.

(* "table<i>" *)
Fixpoint digits_f (f : nat) (n : N) (acc : list N) : list N :=
  match f with O => acc | S f' => if n <? 10 then (48 + n) :: acc else digits_f f' (n / 10) ((48 + n mod 10) :: acc) end.
Definition decimal (n : N) : list N := digits_f (S (N.to_nat (N.size n))) n [].
Definition table_name (i : N) : name := [116; 97; 98; 108; 101] ++ decimal i.

Definition conv_ref (len : N) (r : rawty) : option ty :=
  match r with RPrim p => Some (TPrim p) | RIdx i => if i <? len then Some (TVar (table_name i)) else None end.
Fixpoint conv_refs (len : N) (rs : list rawty) : option (list ty) :=
  match rs with [] => Some [] | r :: rest => match conv_ref len r, conv_refs len rest with Some t, Some ts => Some (t :: ts) | _, _ => None end end.
Fixpoint conv_fields (len : N) (fs : list (N * rawty)) : option (list (N * ty)) :=
  match fs with [] => Some [] | (i, r) :: rest => match conv_ref len r, conv_fields len rest with Some t, Some ts => Some ((i, t) :: ts) | _, _ => None end end.
Fixpoint conv_meths (len : N) (ms : list (name * rawty)) : option (list (name * ty)) :=
  match ms with [] => Some [] | (n, r) :: rest => match conv_ref len r, conv_meths len rest with Some t, Some ts => Some ((n, t) :: ts) | _, _ => None end end.
Fixpoint names_ascending (prev : option name) (ms : list (name * rawty)) : bool :=
  match ms with
  | [] => true
  | (n, _) :: r => match prev with Some p => name_ltb p n && names_ascending (Some n) r | None => names_ascending (Some n) r end
  end.

Definition conv_entry (len : N) (e : rawentry) : option ty :=
  match e with
  | EOpt r => option_map TOpt (conv_ref len r)
  | EVec r => option_map TVec (conv_ref len r)
  | ERec fs => if strictly_ascending None (map fst fs) then option_map TRec (conv_fields len fs) else None
  | EVariant fs => if strictly_ascending None (map fst fs) then option_map TVariant (conv_fields len fs) else None
  | EFunc a r m => match conv_refs len a, conv_refs len r with Some a', Some r' => Some (TFunc a' r' m) | _, _ => None end
  | EServ ms => if names_ascending None ms then option_map TServ (conv_meths len ms) else None
  | EFuture => Some TFuture
  end.

Fixpoint conv_table (len : N) (i : N) (es : list rawentry) : option env :=
  match es with
  | [] => Some []
  | e :: r => match conv_entry len e, conv_table len (i + 1) r with Some t, Some E => Some ((table_name i, t) :: E) | _, _ => None end
  end.

(* every method of every service entry must refer to a table entry that is a function *)
Definition meths_are_funcs (E : env) : bool :=
  forallb (fun d => match snd d with
                    | TServ ms => forallb (fun m => match snd m with
                                                    | TVar x => match lookup E x with Some (TFunc _ _ _) => true | _ => false end
                                                    | _ => false end) ms
                    | _ => true end) E.

(* replace_empty: a record entry from which an infinite path through record fields exists has no values *)
Definition empty_rule (E : env) (S : name -> bool) (x : name) : bool :=
  match lookup E x with
  | Some (TRec fs) => existsb (fun f => match snd f with TVar y => S y | _ => false end) fs
  | _ => false
  end.
Definition empty_names (E : env) : list name := gfp name name_eqb (empty_rule E) (map fst E).
Definition replace_empty (E : env) : env :=
  let em := empty_names E in
  map (fun d => if mem name name_eqb em (fst d) then (fst d, TPrim PEmpty) else d) E.

Definition magic : list N := [68; 73; 68; 76].
Definition dec_header_gen (replace : bool) (max_table : N) (bs : list N) : res (env * list ty * list N) :=
  match bs with
  | 68 :: 73 :: 68 :: 76 :: r =>
      do n <- read_u64 r;
      if max_table <? fst n then Err EMal else
      do es <- read_nN read_entry (fst n) (snd n);
      do na <- read_count (snd es);
      do args <- read_nN read_index (fst na) (snd na);
      match conv_table (fst n) 0 (fst es) with
      | None => Err EMal
      | Some E =>
          if meths_are_funcs E then
            match conv_refs (fst n) (fst args) with
            | Some ts => Ok (if replace then replace_empty E else E, ts, snd args)
            | None => Err EMal
            end
          else Err EMal
      end
  | _ => Err EMal
  end.

(* the header as the implementation's parser returns it (uninhabited record cycles replaced by empty) ... *)
Definition dec_header : N -> list N -> res (env * list ty * list N) := dec_header_gen true.
(* ... and as written on the wire *)
Definition dec_header_raw : N -> list N -> res (env * list ty * list N) := dec_header_gen false.
