(* TypeSer.v -- the type-table builder of the encoder as it is (rust/candid/src/ser.rs: TypeSerialize::build_type,
   encode, serialize) and the whole typed message IDLArgs::to_bytes_with_types writes:
     magic ++ T-table ++ argument types ++ M(values).
   State of the builder: [type_map] (type as written -> table index, keyed by structural equality of the type AS WRITTEN,
   a name and its definition are different keys) and [type_table] (one byte string per index; the slot is reserved BEFORE
   the components are visited, which is what lets recursive types refer to themselves, and filled afterwards).
   Errors (unbound name, name cycle) and the two panics ([unreachable!] on class / future types) are both [None]. *)
From CandidV Require Import Consts model.Leb model.Hash model.Gfp.
From CandidV Require Export model.Wire model.Annot.
Open Scope N_scope.

Definition tmap := list (ty * nat).
Fixpoint tm_find (m : tmap) (t : ty) : option nat :=
  match m with [] => None | (k, i) :: r => if ty_eqb t k then Some i else tm_find r t end.

Definition prim_code (p : prim) : N :=
  match p with
  | PNull => op_null | PBool => op_bool | PNat => op_nat | PInt => op_int
  | PNat8 => op_nat8 | PNat16 => op_nat16 | PNat32 => op_nat32 | PNat64 => op_nat64
  | PInt8 => op_int8 | PInt16 => op_int16 | PInt32 => op_int32 | PInt64 => op_int64
  | PFloat32 => op_float32 | PFloat64 => op_float64 | PText => op_text | PReserved => op_reserved
  | PEmpty => op_empty | PPrincipal => op_principal
  end.
Definition enc_code (c : N) : list N := enc_s (- Z.of_N c).
Definition enc_idx (i : nat) : list N := enc_s (Z.of_nat i).

(* [rec_find_type] for a name, the type itself otherwise *)
Definition actual (E : env) (t : ty) : option ty := match t with TVar _ => trace E t | _ => Some t end.

(* TypeSerialize::encode: a reference to a type from inside a table entry or from the argument list *)
Definition enc_ref (E : env) (m : tmap) (t : ty) : option (list N) :=
  match t with
  | TPrim p => Some (enc_code (prim_code p))
  | TFuture => None
  | TVar _ =>
      match trace E t with
      | None => None
      | Some (TPrim p) => Some (enc_code (prim_code p))
      | Some TFuture => None
      | Some _ => option_map enc_idx (tm_find m t)
      end
  | _ => option_map enc_idx (tm_find m t)
  end.
Fixpoint enc_refs (E : env) (m : tmap) (ts : list ty) : option (list N) :=
  match ts with
  | [] => Some []
  | t :: r => match enc_ref E m t, enc_refs E m r with Some a, Some b => Some (a ++ b) | _, _ => None end
  end.
Fixpoint enc_fields (E : env) (m : tmap) (fs : list (N * ty)) : option (list N) :=
  match fs with
  | [] => Some []
  | (i, t) :: r => match enc_ref E m t, enc_fields E m r with Some a, Some b => Some (enc_u i ++ a ++ b) | _, _ => None end
  end.
Fixpoint enc_meths (E : env) (m : tmap) (ms : list (name * ty)) : option (list N) :=
  match ms with
  | [] => Some []
  | (n, t) :: r => match enc_ref E m t, enc_meths E m r with
                   | Some a, Some b => Some (enc_u (N.of_nat (length n)) ++ n ++ a ++ b) | _, _ => None end
  end.
Definition lenN {A} (l : list A) : N := N.of_nat (length l).

(* the bytes of one table entry, given the map after its components were built *)
Definition enc_entry (E : env) (m : tmap) (a : ty) : option (list N) :=
  match a with
  | TOpt x => option_map (fun r => enc_code op_opt ++ r) (enc_ref E m x)
  | TVec x => option_map (fun r => enc_code op_vec ++ r) (enc_ref E m x)
  | TRec fs => option_map (fun r => enc_code op_record ++ enc_u (lenN fs) ++ r) (enc_fields E m fs)
  | TVariant fs => option_map (fun r => enc_code op_variant ++ enc_u (lenN fs) ++ r) (enc_fields E m fs)
  | TFunc args rets modes =>
      match enc_refs E m args, enc_refs E m rets with
      | Some a', Some r' =>
          Some (enc_code op_func ++ enc_u (lenN args) ++ a' ++ enc_u (lenN rets) ++ r'
                ++ enc_u (lenN modes) ++ flat_map (fun md => enc_s (Z.of_N md)) modes)
      | _, _ => None
      end
  | TServ ms => option_map (fun r => enc_code op_service ++ enc_u (lenN ms) ++ r) (enc_meths E m ms)
  | _ => None
  end.

(* the component types build_type visits, in its order (the second pass over a function's results finds them all
   in the map or primitive already, so it changes nothing and is left out) *)
Definition components (a : ty) : list ty :=
  match a with
  | TOpt x | TVec x => [x]
  | TRec fs | TVariant fs => map snd fs
  | TFunc args rets _ => args ++ rets
  | TServ ms => map snd ms
  | _ => []
  end.
Definition composite (a : ty) : bool :=
  match a with TOpt _ | TVec _ | TRec _ | TVariant _ | TFunc _ _ _ | TServ _ => true | _ => false end.

Fixpoint set_nth {A} (n : nat) (x : A) (l : list A) : list A :=
  match l with
  | [] => []
  | y :: r => match n with O => x :: r | S n' => y :: set_nth n' x r end
  end.

Definition tstate := (tmap * list (list N))%type.

Fixpoint fold_build (bt : tstate -> ty -> option tstate) (s : tstate) (cs : list ty) : option tstate :=
  match cs with
  | [] => Some s
  | c :: r => match bt s c with Some s' => fold_build bt s' r | None => None end
  end.

Fixpoint build (f : nat) (E : env) (s : tstate) (t : ty) {struct f} : option tstate :=
  match f with
  | O => None
  | S f' =>
    match tm_find (fst s) t with
    | Some _ => Some s
    | None =>
      match actual E t with
      | None => None
      | Some a =>
        match a with
        | TPrim _ => Some s
        | _ =>
          if composite a then
            let idx := length (snd s) in
            match fold_build (build f' E) ((t, idx) :: fst s, snd s ++ [[]]) (components a) with
            | None => None
            | Some s2 =>
                match enc_entry E (fst s2) a with
                | Some buf => Some (fst s2, set_nth idx buf (snd s2))
                | None => None
                end
            end
          else None
        end
      end
    end
  end.

Definition build_all (f : nat) (E : env) (s : tstate) (ts : list ty) : option tstate := fold_build (build f E) s ts.

Definition build_fuel (E : env) (ts : list ty) : nat := S (S (length (nodes E ts))).

(* TypeSerialize::serialize after push_type for every argument type *)
Definition enc_header (E : env) (ts : list ty) : option (list N) :=
  match build_all (build_fuel E ts) E ([], []) ts with
  | None => None
  | Some s =>
      match enc_refs E (fst s) ts with
      | Some args => Some (enc_u (lenN (snd s)) ++ concat (snd s) ++ enc_u (lenN ts) ++ args)
      | None => None
      end
  end.

Fixpoint enc_vals (E : env) (vs : list val) (ts : list ty) : option (list N) :=
  match vs, ts with
  | [], [] => Some []
  | v :: vr, t :: tr => match enc_val E v t, enc_vals E vr tr with Some a, Some b => Some (a ++ b) | _, _ => None end
  | _, _ => None
  end.

(* IDLArgs::to_bytes_with_types: values beyond the types are ignored, too few values is an error;
   every value is annotated (strictly) with its type before it is written *)
Definition enc_message (E : env) (vs : list val) (ts : list ty) : option (list N) :=
  if Nat.ltb (length vs) (length ts) then None else
  match annotate_args true E (firstn (length ts) vs) ts with
  | None => None
  | Some avs =>
      match enc_header E ts, enc_vals E avs ts with
      | Some h, Some b => Some (magic ++ h ++ b)
      | _, _ => None
      end
  end.
