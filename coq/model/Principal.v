(* Principal.v -- textual form of principals (rust/ic_principal/src/lib.rs):
   CRC-32 (crc32fast, modelled bitwise), RFC 4648 base32 without padding (data-encoding BASE32_NOPAD,
   modelled at the value level: the bit string read as a number), dash grouping, from_text / to_text,
   the slice constructors and the length limit. Strings are lists of byte codes. *)
From CandidV Require Export model.Base.
From CandidV Require Import Consts.
Open Scope N_scope.

(* ---------- positional notation, most significant digit first ---------- *)
Fixpoint be_val (base : N) (ds : list N) : N :=
  match ds with [] => 0 | d :: r => d * base ^ (N.of_nat (length r)) + be_val base r end.
Fixpoint to_digits (base : N) (k : nat) (n : N) : list N :=
  match k with
  | O => []
  | S k' => n / base ^ (N.of_nat k') :: to_digits base k' (n mod base ^ (N.of_nat k'))
  end.

(* ---------- CRC-32 (IEEE 802.3, reflected, init and final xor 0xFFFFFFFF) ---------- *)
Definition crc_poly : N := 3988292384.   (* 0xEDB88320 *)
Definition crc_shift (c : N) : N := if N.odd c then N.lxor (c / 2) crc_poly else c / 2.
Definition crc_byte (c b : N) : N :=
  let c := N.lxor c b in
  crc_shift (crc_shift (crc_shift (crc_shift (crc_shift (crc_shift (crc_shift (crc_shift c))))))).
Definition crc32 (bs : list N) : N := N.lxor (fold_left crc_byte bs 4294967295) 4294967295.
Definition be32 (x : N) : list N := to_digits 256 4 (x mod 2 ^ 32).

(* ---------- base32, upper-case alphabet A-Z 2-7, no padding ---------- *)
Definition b32_alpha (v : N) : N := if v <? 26 then 65 + v else 24 + v.
Definition b32_val (c : N) : option N :=
  if (65 <=? c) && (c <=? 90) then Some (c - 65)
  else if (50 <=? c) && (c <=? 55) then Some (c - 24)
  else None.
Definition nchars (nbytes : N) : N := (8 * nbytes + 4) / 5.
Definition b32_encode (bs : list N) : list N :=
  let l := N.of_nat (length bs) in
  let nc := nchars l in
  let pad := 5 * nc - 8 * l in
  map b32_alpha (to_digits 32 (N.to_nat nc) (be_val 256 bs * 2 ^ pad)).
Fixpoint map_opt {A B} (f : A -> option B) (l : list A) : option (list B) :=
  match l with
  | [] => Some []
  | a :: r => match f a, map_opt f r with Some b, Some r' => Some (b :: r') | _, _ => None end
  end.
(* data-encoding: invalid symbol, invalid length (n mod 8 in {1,3,6}) and non-zero trailing bits are errors *)
Definition b32_decode (cs : list N) : option (list N) :=
  match map_opt b32_val cs with
  | None => None
  | Some vals =>
      let nc := N.of_nat (length cs) in
      let r := nc mod 8 in
      if (r =? 1) || (r =? 3) || (r =? 6) then None
      else
        let nb := 5 * nc / 8 in
        let trail := 5 * nc - 8 * nb in
        let m := be_val 32 vals in
        if m mod 2 ^ trail =? 0 then Some (to_digits 256 (N.to_nat nb) (m / 2 ^ trail)) else None
  end.

(* ---------- text form ---------- *)
Definition upper (c : N) : N := if (97 <=? c) && (c <=? 122) then c - 32 else c.
Definition lower (c : N) : N := if (65 <=? c) && (c <=? 90) then c + 32 else c.
Definition dash : N := 45.
Fixpoint dash5_fuel (f : nat) (s : list N) : list N :=
  match f with
  | O => s
  | S f' => if (5 <? length s)%nat then firstn 5 s ++ dash :: dash5_fuel f' (skipn 5 s) else s
  end.
Definition dash5 (s : list N) : list N := dash5_fuel (length s) s.

Definition to_text (bs : list N) : list N :=
  dash5 (map lower (b32_encode (be32 (crc32 bs) ++ bs))).

Inductive perr := PInvalidBase32 | PTextTooShort | PTextTooLong | PCheckSequence | PAbnormalGrouped | PBytesTooLong.

Definition max_len : nat := N.to_nat principal_max_len.
Definition crc_len : nat := N.to_nat principal_crc_len.

Definition try_from_slice (bs : list N) : list N + perr :=
  if (length bs <=? max_len)%nat then inl bs else inr PBytesTooLong.

Definition from_text (s : list N) : list N + perr :=
  let u := filter (fun c => negb (c =? dash)) (map upper s) in
  match b32_decode u with
  | None => inr PInvalidBase32
  | Some bytes =>
      if (length bytes <? crc_len)%nat then inr PTextTooShort
      else
        let crc := firstn crc_len bytes in
        let data := skipn crc_len bytes in
        if (max_len <? length data)%nat then inr PTextTooLong
        else if negb (list_eqb N.eqb (be32 (crc32 data)) crc) then inr PCheckSequence
        else if list_eqb N.eqb (map lower s) (to_text data) then inl data
        else inr PAbnormalGrouped
  end.
