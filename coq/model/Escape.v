(* Escape.v -- what the binding generators do to text taken from the program before splicing it into a comment or a
   string literal of the target language, and the scanners of those languages that decide where the comment / literal ends. *)
From CandidV Require Export model.Base.
Open Scope N_scope.

(* typescript.rs: escape_doc_comment = line.replace("*/", "*\/")   (leftmost, non-overlapping) *)
Fixpoint esc_doc (s : list N) : list N :=
  match s with
  | [] => []
  | c :: r =>
      if c =? 42 then
        match r with
        | d :: r' => if d =? 47 then 42 :: 92 :: 47 :: esc_doc r' else c :: esc_doc r
        | [] => [c]
        end
      else c :: esc_doc r
  end.
(* does a block comment body close?  "*/" anywhere *)
Fixpoint has_close (l : list N) : bool :=
  match l with
  | [] => false
  | c :: r => match r with d :: _ => ((c =? 42) && (d =? 47)) || has_close r | [] => false end
  end.

(* a quoted literal: the scanner of JavaScript / TypeScript / Rust string literals (quote character q): a backslash takes the
   next character with it, the first bare q ends the literal, a bare line break is not allowed inside *)
Fixpoint scan_lit (q : N) (l : list N) : option (list N) :=
  match l with
  | [] => None
  | c :: r =>
      if c =? q then Some r
      else if c =? 92 then match r with _ :: r' => scan_lit q r' | [] => None end
      else if (c =? 10) || (c =? 13) then None
      else scan_lit q r
  end.
(* per-character escaping (Rust's char::escape_debug in the implementation): a function of the scalar value *)
Definition esc_string (esc : N -> list N) (s : list N) : list N := flat_map esc s.
(* what a character's escape must look like for the literal to stay closed: either the character itself, when it is none of
   quote, backslash, line break; or a backslash followed by characters that are none of those, except that the character
   right after the backslash may be anything but a line break *)
Definition plain (c : N) : bool := negb ((c =? 39) || (c =? 34) || (c =? 92) || (c =? 10) || (c =? 13)).
Definition esc_ok (e : list N) : bool :=
  match e with
  | [] => false
  | c :: r =>
      match r with
      | [] => plain c
      | d :: r' => (c =? 92) && negb ((d =? 10) || (d =? 13)) && forallb plain r'
      end
  end.
