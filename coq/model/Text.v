(* Text.v -- the character level of the Candid text format: how the printers escape text, labels, blobs and
   numbers (rust/candid/src/pretty/candid.rs, utils.rs::pp_num_str) and how the lexer reads string and number
   literals back (rust/candid_parser/src/token.rs, with logos' longest-match rule made explicit).
   Source text is a list of Unicode scalar values; the content of a string literal is a list of bytes. *)
From CandidV Require Export model.Base.
Open Scope N_scope.

Definition is_scalar (c : N) : bool := (c <? 55296) || ((57344 <=? c) && (c <? 1114112)).

Definition utf8_char (c : N) : list N :=
  if c <? 128 then [c]
  else if c <? 2048 then [192 + c / 64; 128 + c mod 64]
  else if c <? 65536 then [224 + c / 4096; 128 + (c / 64) mod 64; 128 + c mod 64]
  else [240 + c / 262144; 128 + (c / 4096) mod 64; 128 + (c / 64) mod 64; 128 + c mod 64].
Definition utf8 (s : list N) : list N := flat_map utf8_char s.

(* ---------- hexadecimal ---------- *)
Definition hex_digit (d : N) : N := if d <? 10 then 48 + d else 87 + d.       (* lower case *)
Definition hex_val (c : N) : option N :=
  if (48 <=? c) && (c <=? 57) then Some (c - 48)
  else if (97 <=? c) && (c <=? 102) then Some (c - 87)
  else if (65 <=? c) && (c <=? 70) then Some (c - 55)
  else None.
Fixpoint hex_of_f (f : nat) (n : N) (acc : list N) : list N :=
  match f with
  | O => acc
  | S f' => if n <? 16 then hex_digit n :: acc else hex_of_f f' (n / 16) (hex_digit (n mod 16) :: acc)
  end.
Definition hex_of (n : N) : list N := hex_of_f (S (N.to_nat (N.size n))) n [].   (* {:x}: no leading zeros *)

(* ---------- printer: char::escape_debug with the NUL repair.  Whether a scalar is printed literally depends on
   Unicode tables (and, for grapheme extenders, on its position): each scalar comes with that decision [lit],
   an oracle read off the standard library; the theorems hold for every choice. ---------- *)
Definition escape_char (c : N) (lit : bool) : list N :=
  if c =? 0 then [92; 117; 123; 48; 125]                       (* \u{0} *)
  else if c =? 9 then [92; 116] else if c =? 13 then [92; 114] else if c =? 10 then [92; 110]
  else if c =? 92 then [92; 92] else if c =? 34 then [92; 34] else if c =? 39 then [92; 39]
  else if lit then [c]
  else [92; 117; 123] ++ hex_of c ++ [125].                    (* \u{h..} *)
Definition escape_text (s : list (N * bool)) : list N := flat_map (fun cl => escape_char (fst cl) (snd cl)) s.
Definition pp_text (s : list (N * bool)) : list N := 34 :: escape_text s ++ [34].

(* labels and method names: bare when an ASCII identifier that is not a keyword, quoted otherwise *)
Definition keywords : list (list N) :=
  [ [105;109;112;111;114;116]; [115;101;114;118;105;99;101]; [102;117;110;99]; [116;121;112;101]; [111;112;116]; [118;101;99];
    [114;101;99;111;114;100]; [118;97;114;105;97;110;116]; [98;108;111;98]; [112;114;105;110;99;105;112;97;108]; [110;97;116];
    [110;97;116;56]; [110;97;116;49;54]; [110;97;116;51;50]; [110;97;116;54;52]; [105;110;116]; [105;110;116;56]; [105;110;116;49;54];
    [105;110;116;51;50]; [105;110;116;54;52]; [102;108;111;97;116;51;50]; [102;108;111;97;116;54;52]; [98;111;111;108]; [116;101;120;116];
    [110;117;108;108]; [114;101;115;101;114;118;101;100]; [101;109;112;116;121]; [111;110;101;119;97;121]; [113;117;101;114;121];
    [99;111;109;112;111;115;105;116;101;95;113;117;101;114;121] ].
Definition is_alpha_ (c : N) : bool := ((65 <=? c) && (c <=? 90)) || ((97 <=? c) && (c <=? 122)) || (c =? 95).
Definition is_alnum_ (c : N) : bool := is_alpha_ c || ((48 <=? c) && (c <=? 57)).
Definition is_valid_as_id (s : list N) : bool :=
  match s with [] => false | c :: r => is_alpha_ c && forallb is_alnum_ r end.
Definition needs_quote (s : list N) : bool := negb (is_valid_as_id s) || existsb (list_eqb N.eqb s) keywords.
Definition ident_string (s : list (N * bool)) : list N :=
  if needs_quote (map fst s) then pp_text s else map fst s.

(* blob printer (Debug of Blob / Vec<Nat8>): pp_char per byte, or every byte as \xx when some byte is not plain ASCII *)
Definition hex2 (b : N) : list N := [hex_digit (b / 16); hex_digit (b mod 16)].
Definition pp_byte_char (v : N) : list N :=
  if (32 <=? v) && (v <=? 126) && negb (v =? 34) && negb (v =? 39) && negb (v =? 96) && negb (v =? 92)
  then [v] else 92 :: hex2 v.
Definition blob_ascii (b : N) : bool := ((32 <=? b) && (b <=? 126)) || (b =? 9) || (b =? 10) || (b =? 13).
Definition pp_blob (bs : list N) : list N :=
  34 :: (if forallb blob_ascii bs then flat_map pp_byte_char bs else flat_map (fun b => 92 :: hex2 b) bs) ++ [34].

(* ---------- lexer: after the opening quote ---------- *)
(* \u{ hex [_hex]* } : returns the code point and the rest, None when the Codepoint regex does not match *)
Fixpoint scan_codepoint (cs : list N) (acc : N) (seen : bool) : option (N * list N) :=
  match cs with
  | [] => None
  | c :: r =>
      if c =? 125 then (if seen then Some (acc, r) else None)
      else if c =? 95 then (if seen then scan_codepoint r acc seen else None)
      else match hex_val c with
           | Some d => scan_codepoint r (acc * 16 + d) true
           | None => None
           end
  end.

Fixpoint lex_str (f : nat) (cs : list N) : res (list N * list N) :=     (* bytes of the literal, rest after the closing quote *)
  match f with
  | O => OutOfFuel
  | S f' =>
    match cs with
    | [] => Err EMal                                             (* unclosed string *)
    | c :: r =>
        if c =? 34 then Ok ([], r)
        else if c =? 92 then
          match r with
          | [] => Err EMal
          | e :: r1 =>
              (* longest match: Codepoint, then Byte (3 chars), then EscapeCharacter (2 chars) *)
              let cp := if e =? 117 then match r1 with
                                         | 123 :: r2 => scan_codepoint r2 0 false
                                         | _ => None end else None in
              match cp with
              | Some (n, r3) =>
                  if (n <? 2 ^ 32) && is_scalar n then do x <- lex_str f' r3; Ok (utf8_char n ++ fst x, snd x) else Err EMal
              | None =>
                  match hex_val e, r1 with
                  | Some h, l :: r2 =>
                      match hex_val l with
                      | Some lo => do x <- lex_str f' r2; Ok ((h * 16 + lo) :: fst x, snd x)
                      | None => Err EMal                         (* \ hex non-hex: unknown escape *)
                      end
                  | Some _, [] => Err EMal
                  | None, _ =>
                      let out := if e =? 110 then Some 10 else if e =? 114 then Some 13 else if e =? 116 then Some 9
                                 else if e =? 92 then Some 92 else if e =? 34 then Some 34 else if e =? 39 then Some 39 else None in
                      match out with
                      | Some b => if e =? 10 then Err EMal else do x <- lex_str f' r1; Ok (b :: fst x, snd x)
                      | None => Err EMal
                      end
                  end
              end
          end
        else do x <- lex_str f' r; Ok (utf8_char c ++ fst x, snd x)
    end
  end.
Definition lex_string (cs : list N) : res (list N * list N) :=
  match cs with 34 :: r => lex_str (S (length r)) r | _ => Err EMal end.

(* ---------- numbers: pp_num_str groups digits by three with '_' ; the lexer drops the underscores ---------- *)
Fixpoint group3 (ds : list N) (k : nat) : list N :=       (* k = number of digits still to come in the current group *)
  match ds with
  | [] => []
  | d :: r => match k with
              | O => 95 :: d :: group3 r 2
              | S k' => d :: group3 r k'
              end
  end.
Definition pp_num_str (ds : list N) : list N :=
  match length ds mod 3 with
  | O => group3 ds 3
  | k => group3 ds k
  end%nat.
Definition strip_underscores (cs : list N) : list N := filter (fun c => negb (c =? 95)) cs.
