(* De.v -- the deserializer of rust/candid/src/de.rs as it is, for the two visitors that the untyped API uses
   (IDLValueVisitor and serde's IgnoredAny), as a single pass over the input that threads the two cost counters.

   What is mirrored: the order of unroll_type / check! / add_cost / reads in every deserialize_* entry, the three
   fast paths of deserialize_seq, the field merge of the struct MapAccess, the variant protocol (label suffix
   ",name|id,unit|struct|newtype"), recoverable_visit_some (back-tracking restores everything but the budget),
   deserialize_ignored_any (is_untyped := true, expect := wire), IDLDeserialize::{new_with_config,
   get_value_with_type, done}.
   What is not: the stack guard (RecursionDepth) and error message texts.

   Budget: the implementation keeps REMAINING quotas; the model keeps SPENT counters and takes the limits as a
   read-only parameter (remaining = limit - spent).  A counter advances whether or not its limit is set. *)
From CandidV Require Export model.Coerce.
From CandidV Require Import Consts model.Leb.
Open Scope N_scope.

Definition lim := (option N * option N)%type.     (* decoding quota, skipping quota *)
Definition cnt := (N * N)%type.                   (* spent decoding, spent skipping *)
Definition M (A : Type) := lim -> cnt -> cnt * res A.

Definition ret {A} (a : A) : M A := fun _ c => (c, Ok a).
Definition liftR {A} (r : res A) : M A := fun _ c => (c, r).
Definition failM {A} (e : eclass) : M A := fun _ c => (c, Err e).
Definition bindM {A B} (m : M A) (k : A -> M B) : M B :=
  fun l c => match m l c with
             | (c', Ok a) => k a l c'
             | (c', Err e) => (c', Err e)
             | (c', Panic) => (c', Panic)
             | (c', OutOfFuel) => (c', OutOfFuel)
             end.
Notation "'dom' x <- r ; k" := (bindM r (fun x => k)) (at level 200, x pattern, r at level 100, k at level 200).
(* back-tracking: a subtype-class failure is handled, the budget spent by the failed attempt stays spent *)
Definition catch_sub {A} (m : M A) (h : M A) : M A :=
  fun l c => match m l c with (c', Err ESub) => h l c' | r => r end.

Definition usize_max : N := 2 ^ 64 - 1.
Definition sat (n : N) : N := N.min n usize_max.
(* add_cost: the argument is a usize; 50x (saturating) on the decoding budget while is_untyped, and the skipping
   budget is charged only while is_untyped.  Order of the two tests as in the source. *)
Definition add_cost (u : bool) (c0 : N) : M unit := fun l cn =>
  let c := sat c0 in
  let cd := if u then sat (c * 50) else c in
  let sd' := fst cn + cd in
  if match fst l with Some q => q <? sd' | None => false end then (cn, Err EQuota)
  else if u then
    let ss' := snd cn + c in
    if match snd l with Some q => q <? ss' | None => false end then ((sd', snd cn), Err EQuota)
    else ((sd', ss'), Ok tt)
  else ((sd', snd cn), Ok tt).

Definition checked_mul (a b : N) : M N := if a * b <=? usize_max then ret (a * b) else failM EMal.

Inductive host := HV | HI.     (* IDLValueVisitor / IgnoredAny *)

Definition tr (E : env) (t : ty) : M ty := match trace E t with Some t' => ret t' | None => failM EOther end.
Definition is_var (t : ty) : bool := match t with TVar _ => true | _ => false end.
Definition unroll1 (u : bool) (E : env) (t : ty) : M ty :=
  if is_var t then (dom _ <- add_cost u 1; tr E t) else ret t.
Definition unroll (u : bool) (E : env) (e w : ty) : M (ty * ty) :=
  dom e' <- unroll1 u E e; dom w' <- unroll1 u E w; ret (e', w').

Definition is_blob (E : env) (t : ty) : bool :=
  match t with TVec t1 => match trace E t1 with Some (TPrim PNat8) => true | _ => false end | _ => false end.

(* exact_primitive_type: structural, on the element types as given *)
Definition exact_prim (e w : ty) : option prim :=
  match e, w with
  | TPrim p, TPrim q =>
      if prim_eqb p q then
        match p with
        | PBool | PNat8 | PNat16 | PNat32 | PNat64 | PInt8 | PInt16 | PInt32 | PInt64 | PFloat32 | PFloat64 => Some p
        | _ => None
        end
      else None
  | _, _ => None
  end.
Definition prim_size (p : prim) : N :=
  match p with
  | PBool | PNat8 | PInt8 => 1 | PNat16 | PInt16 => 2 | PNat32 | PInt32 | PFloat32 => 4 | _ => 8
  end.
Inductive bigfast := BNat | BInt | BNatAsInt.
Definition big_fast (e w : ty) : option bigfast :=
  match e, w with
  | TPrim PNat, TPrim PNat => Some BNat
  | TPrim PInt, TPrim PInt => Some BInt
  | TPrim PInt, TPrim PNat => Some BNatAsInt
  | _, _ => None
  end.

(* reading one fixed-width primitive (the value part of primitive_impl! / deserialize_bool / PrimitiveVecAccess) *)
Definition read_prim (p : prim) (bs : list N) : res (val * list N) :=
  match p with
  | PBool => match bs with 0 :: r => Ok (VBool false, r) | 1 :: r => Ok (VBool true, r) | _ => Err EMal end
  | PFloat32 => do xr <- take_bytes 4 bs; Ok (VFloat 32 (le_val (fst xr)), snd xr)
  | PFloat64 => do xr <- take_bytes 8 bs; Ok (VFloat 64 (le_val (fst xr)), snd xr)
  | _ =>
      match prim_bits p with
      | Some (sg, b) =>
          do xr <- take_bytes (b / 8) bs;
          let n := le_val (fst xr) in
          if sg then Ok (VIntN b (if n <? 2 ^ (b - 1) then Z.of_N n else (Z.of_N n - 2 ^ Z.of_N b)%Z), snd xr)
          else Ok (VNatN b n, snd xr)
      | None => Err EOther
      end
  end.

Definition consumed (bs rest : list N) : N := N.of_nat (length bs) - N.of_nat (length rest).

(* deserialize_nat / deserialize_int after their type tests; cost = bytes consumed *)
Definition de_nat (u : bool) (bs : list N) : M (val * list N) :=
  match split_leb bs with
  | Some (p, r) => dom _ <- add_cost u (N.of_nat (length p)); ret (VNat (leb_val p), r)
  | None => failM EMal
  end.
Definition de_int (u : bool) (w : ty) (bs : list N) : M (val * list N) :=
  match w with
  | TPrim PInt => match split_leb bs with
                  | Some (p, r) => dom _ <- add_cost u (N.of_nat (length p)); ret (VInt (sleb_val p), r)
                  | None => failM EMal end
  | TPrim PNat => match split_leb bs with
                  | Some (p, r) => dom _ <- add_cost u (N.of_nat (length p)); ret (VInt (Z.of_N (leb_val p)), r)
                  | None => failM EMal end
  | _ => failM ESub
  end.

(* label cost in deserialize_identifier.  [lc i] = Some n when the expected type spells field i as a name of n
   bytes; wire-side labels are always numeric. *)
Definition digits_len (n : N) : N := N.of_nat (length (decimal n)).
Definition rec_label_cost (lc : N -> option N) (i : N) : N := match lc i with Some n => n | None => 4 end.
Definition accessor_len (te : ty) : N := match te with TPrim PNull => 4 | TRec _ => 6 | _ => 7 end.
Definition var_label_cost (lc : N -> option N) (u : bool) (i : N) (te : ty) : N :=
  match lc i with
  | Some n => if u then n + 6 + accessor_len te else n
  | None => if u then digits_len i + 4 + accessor_len te else digits_len i
  end.
Definition no_names : N -> option N := fun _ => None.

Fixpoint rep {A} (n : nat) (step : list N -> M (A * list N)) (bs : list N) : M (list A * list N) :=
  match n with
  | O => ret ([], bs)
  | S n' => dom xr <- step bs; dom rr <- rep n' step (snd xr); ret (fst xr :: fst rr, snd rr)
  end.

Definition optional_ty (t : ty) : bool :=
  match t with TOpt _ | TPrim PReserved | TPrim PNull => true | _ => false end.

Section Fields.
  Variable rec : bool -> host -> (N -> option N) -> ty -> ty -> list N -> M (val * list N).
  Variables (E : env) (u : bool) (h : host) (lc : N -> option N).
  (* the struct MapAccess driven by visit_map: next_key_seed (4), the key through deserialize_identifier,
     next_value_seed (1), the value; entries keyed "_" are dropped by IDLValueVisitor *)
  Fixpoint de_fields (k : nat) (es ws : list (N * ty)) (bs : list N) {struct k} : M (list (N * val) * list N) :=
    match k with
    | O => liftR OutOfFuel
    | S k' =>
      dom _ <- add_cost u 4;
      let matched i te tw es' ws' :=
          dom _ <- add_cost u (rec_label_cost lc i);
          dom _ <- add_cost u 1;
          dom vr <- rec u h lc te tw bs;
          dom rr <- de_fields k' es' ws' (snd vr);
          ret ((i, fst vr) :: fst rr, snd rr) in
      let missing i te es' ws' (strict : bool) :=
          dom te' <- (if strict then
                        dom t' <- tr E te;
                        if optional_ty t' then ret t' else failM ESub
                      else ret te);
          dom _ <- add_cost u (rec_label_cost lc i);
          dom _ <- add_cost u 1;
          dom vr <- rec u h lc te' (TPrim PNull) bs;
          dom rr <- de_fields k' es' ws' (snd vr);
          ret ((i, fst vr) :: fst rr, snd rr) in
      let surplus tw es' ws' :=
          dom _ <- add_cost u 1;          (* the name "_" *)
          dom _ <- add_cost u 1;
          dom vr <- rec u h lc (TPrim PReserved) tw bs;
          de_fields k' es' ws' (snd vr) in
      match es, ws with
      | [], [] => ret ([], bs)
      | (i, te) :: es', (j, tw) :: ws' =>
          if i =? j then matched i te tw es' ws'
          else if i <? j then missing i te es' ws true
          else surplus tw es ws'
      | [], (j, tw) :: ws' => surplus tw [] ws'
      | (i, te) :: es', [] => missing i te es' [] false
      end
    end.
End Fields.

Definition principal_cost (bs : list N) : N := N.max 30 (N.of_nat (length bs)).

Fixpoint de (f : nat) (E : env) (u : bool) (h : host) (lc : N -> option N) (e w : ty) (bs : list N) {struct f}
  : M (val * list N) :=
  match f with
  | O => liftR OutOfFuel
  | S f' =>
    dom ew <- unroll u E e w;
    let '(e', w') := ew in
    let skip (tw : ty) (bs : list N) : M (val * list N) := de f' E true HI no_names tw tw bs in
    (* recoverable_visit_some: attempt at (te, tw); on a subtype failure pay 10, skip the value, answer none *)
    let recoverable (te tw : ty) (bs : list N) : M (val * list N) :=
        catch_sub (dom vr <- (match h with
                              | HV => de f' E u HV lc te tw bs
                              | HI => skip tw bs        (* IgnoredAny::visit_some: deserialize_ignored_any *)
                              end);
                   ret (VOpt (Some (fst vr)), snd vr))
                  (dom _ <- add_cost u 10; dom vr <- skip tw bs; ret (VOpt None, snd vr)) in
    (* an element / field / payload handed to the visitor's Deserialize impl *)
    let sub (te tw : ty) (bs : list N) : M (val * list N) :=
        match h with HV => de f' E u HV lc te tw bs | HI => skip tw bs end in
    match e' with
    | TPrim PInt => de_int u w' bs
    | TPrim PNat => match w' with TPrim PNat => de_nat u bs | _ => failM ESub end
    | TPrim PText =>
        match w' with
        | TPrim PText =>
            dom lr <- liftR (read_u64 bs);
            dom _ <- add_cost u (fst lr + 1);
            dom sr <- liftR (take_bytes (fst lr) (snd lr));
            if utf8_valid (fst sr) then ret (VText (fst sr), snd sr) else failM EMal
        | _ => failM ESub
        end
    | TPrim PNull => match w' with TPrim PNull => dom _ <- add_cost u 1; ret (VNull, bs) | _ => failM ESub end
    | TPrim PReserved =>
        dom bs' <- (match w' with
                    | TPrim PReserved => ret bs
                    | _ => dom vr <- skip w' bs; ret (snd vr)
                    end);
        dom _ <- add_cost u 1; ret (VReserved, bs')
    | TPrim PEmpty => match w' with TPrim PEmpty => failM EMal | _ => failM ESub end
    | TPrim PPrincipal =>
        match w' with
        | TPrim PPrincipal | TServ _ =>
            dom pr <- liftR (dec_principal_bytes bs);
            dom _ <- add_cost u (principal_cost (fst pr));
            ret (VPrincipal (fst pr), snd pr)
        | _ => failM ESub
        end
    | TPrim p =>      (* bool, natN, intN, floatN *)
        match w' with
        | TPrim q => if prim_eqb p q then
                       dom _ <- add_cost u (prim_size p); liftR (read_prim p bs)
                     else failM ESub
        | _ => failM ESub
        end
    | TOpt t2 =>
        dom _ <- add_cost u 1;
        match w' with
        | TPrim PNull | TPrim PReserved => ret (VOpt None, bs)
        | TOpt t1 =>
            match bs with
            | 0 :: r => ret (VOpt None, r)
            | 1 :: r => recoverable t2 t1 r
            | _ => failM EMal
            end
        | _ => dom t2' <- tr E t2; recoverable t2' w' bs
        end
    | TVec te =>
        if is_blob E e' && is_blob E w' then
          dom lr <- liftR (read_u64 bs);
          dom _ <- add_cost u (fst lr + 1);
          dom sr <- liftR (take_bytes (fst lr) (snd lr));
          ret (VVec (map (VNatN 8) (fst sr)), snd sr)
        else
          dom _ <- add_cost u 1;
          match w' with
          | TVec tw =>
              dom tw' <- tr E tw;
              dom lr <- liftR (read_u64 bs);
              let len := fst lr in
              match exact_prim te tw' with
              | Some p =>
                  dom c <- checked_mul len (3 + prim_size p);
                  dom _ <- add_cost u c;
                  dom total <- checked_mul len (prim_size p);
                  if N.of_nat (length (snd lr)) <? total then failM EMal else
                  dom vr <- liftR (read_n (read_prim p) (N.to_nat len) (snd lr));
                  ret (VVec (fst vr), snd vr)
              | None =>
                  if max_count <? len then liftR OutOfFuel else
                  match big_fast te tw' with
                  | Some b =>
                      dom c <- checked_mul len 3;
                      dom _ <- add_cost u c;
                      dom vr <- rep (N.to_nat len)
                                    (match b with BNat => de_nat u | _ => de_int u tw' end) (snd lr);
                      ret (VVec (fst vr), snd vr)
                  | None =>
                      dom vr <- rep (N.to_nat len) (fun bs => dom _ <- add_cost u 3; sub te tw' bs) (snd lr);
                      ret (VVec (fst vr), snd vr)
                  end
              end
          | _ => failM ESub
          end
    | TRec es =>
        dom _ <- add_cost u 1;
        match w' with
        | TRec ws =>
            dom vr <- de_fields (fun u0 h0 lc0 => match h0 with HV => de f' E u0 HV lc0 | HI => fun _ tw => skip tw end)
                                E u h lc (S (length es + length ws)) es ws bs;
            ret (VRec (fst vr), snd vr)
        | _ => failM ESub
        end
    | TVariant es =>
        dom _ <- add_cost u 1;
        match w' with
        | TVariant ws =>
            dom ir <- liftR (read_u64 bs);
            if fst ir <? N.of_nat (length ws) then
              match nth_error ws (N.to_nat (fst ir)) with
              | Some (i, tw) =>
                  match find_field i es with
                  | Some te =>
                      dom _ <- add_cost u 4;
                      dom _ <- add_cost u (var_label_cost lc u i te);
                      match h, te with
                      | HV, TPrim PNull =>
                          match tw with
                          | TPrim PNull => dom _ <- add_cost u 1; ret (VVariant i VNull, snd ir)
                          | _ => failM ESub
                          end
                      | _, _ =>
                          dom _ <- add_cost u 1;
                          dom vr <- sub te tw (snd ir);
                          ret (VVariant i (fst vr), snd vr)
                      end
                  | None => failM ESub
                  end
              | None => failM EMal
              end
            else failM EMal
        | _ => failM ESub
        end
    | TServ _ =>
        dom _ <- add_cost u (N.of_nat (length E));
        if sub_dec_fast E w' e' then
          dom pr <- liftR (dec_principal_bytes bs);
          dom _ <- add_cost u (principal_cost (fst pr));
          ret (VService (fst pr), snd pr)
        else failM ESub
    | TFunc _ _ _ =>
        dom _ <- add_cost u (N.of_nat (length E));
        if sub_dec_fast E w' e' then
          match bs with
          | 1 :: r =>
              dom pr <- liftR (dec_principal_bytes r);
              dom lr <- liftR (read_u64 (snd pr));
              dom mr <- liftR (take_bytes (fst lr) (snd lr));
              dom _ <- add_cost u (sat (sat (principal_cost (fst pr) + fst lr) + 2));
              (* the method name is validated by the deserializer itself: also when the reference is skipped *)
              if utf8_valid (fst mr) then ret (VFunc (fst pr) (fst mr), snd mr) else failM EMal
          | _ => failM EMal
          end
        else failM ESub
    | TFuture =>
        dom lr <- liftR (read_u64 bs);
        dom _ <- add_cost u (fst lr + 1);
        dom nr <- liftR (read_u64 (snd lr));
        dom sr <- liftR (take_bytes (fst lr) (snd nr));
        ret (VNull, snd sr)
    | _ => failM EOther
    end
  end.

(* ---------- IDLArgs::from_bytes_with_types_with_config ---------- *)
Fixpoint de_args_loop (f : nat) (E : env) (lc : N -> option N) (tes tws : list ty) (bs : list N)
  : M (list val * list ty * list N) :=
  match tes with
  | [] => ret ([], tws, bs)
  | te :: tes' =>
      dom e' <- tr E te;
      match tws with
      | [] =>
          if optional_ty e' then
            dom vr <- de f E true HV lc e' (TPrim PNull) bs;
            dom rr <- de_args_loop f E lc tes' [] (snd vr);
            ret (fst vr :: fst (fst rr), snd (fst rr), snd rr)
          else failM EOther
      | tw :: tws' =>
          dom vr <- de f E true HV lc e' tw bs;
          dom rr <- de_args_loop f E lc tes' tws' (snd vr);
          ret (fst vr :: fst (fst rr), snd (fst rr), snd rr)
      end
  end.
(* done(): skip what is left, then require the end of input *)
Fixpoint de_done (f : nat) (E : env) (tws : list ty) (bs : list N) : M unit :=
  match tws with
  | [] => match bs with [] => ret tt | _ => failM EOther end
  | tw :: r => dom vr <- de f E true HI no_names tw tw bs; de_done f E r (snd vr)
  end.

Definition de_fuel (E : env) (bs : list N) : nat := (2 * (length bs + length E) + 50)%nat.

Definition de_message (max_table : N) (Ee : env) (lc : N -> option N) (tes : list ty) (bs : list N) : M (list val) :=
  dom hd <- liftR (dec_header max_table bs);
  let '(Ew, tws, body) := hd in
  dom _ <- add_cost false (sat (consumed bs body * 4));
  (* the expected environment is merged into the table by the first get_value_with_type call *)
  let E := match tes with [] => Ew | _ => Ew ++ Ee end in
  (* twice the fuel of the specification's coercion: an expected opt around a non-opt wire value costs the decoder a level
     of nesting that the value does not have *)
  let f := (2 * de_fuel E bs + 2)%nat in
  dom r <- de_args_loop f E lc tes tws body;
  let '(vs, tws', rest) := r in
  dom _ <- de_done f E tws' rest;
  ret vs.

(* IDLArgs::from_bytes_with_config: every argument at its wire type (expected type Unknown: expect := the wire
   type as written, a table reference, so both sides are unrolled) *)
Fixpoint de_args_unknown (f : nat) (E : env) (tws : list ty) (bs : list N) : M (list val * list N) :=
  match tws with
  | [] => ret ([], bs)
  | tw :: r =>
      dom vr <- de f E true HV no_names tw tw bs;
      dom rr <- de_args_unknown f E r (snd vr);
      ret (fst vr :: fst rr, snd rr)
  end.
Definition de_message_untyped (max_table : N) (bs : list N) : M (list val) :=
  dom hd <- liftR (dec_header max_table bs);
  let '(Ew, tws, body) := hd in
  dom _ <- add_cost false (sat (consumed bs body * 4));
  let f := de_fuel Ew bs in
  dom r <- de_args_unknown f Ew tws body;
  dom _ <- de_done f Ew [] (snd r);
  ret (fst r).

(* ---------- the cost model documented with set_decoding_quota ---------- *)
Definition leb_len (n : N) : N := N.of_nat (length (enc_u n)).
Definition sleb_len (z : Z) : N := N.of_nat (length (enc_s z)).

(* number of values in a decoded (or skipped) value: every node counts, zero-sized ones included *)
Fixpoint nodes (v : val) : N :=
  1 + match v with
      | VOpt (Some w) | VVariant _ w => nodes w
      | VVec vs => fold_right (fun w a => nodes w + a) 0 vs
      | VRec fs => fold_right (fun f a => nodes (snd f) + a) 0 fs
      | _ => 0
      end.
Definition nodes_list (vs : list val) : N := fold_right (fun w a => nodes w + a) 0 vs.
