(* Coerce.v -- the coercion relation  v : t ~> v' : t'  of spec/Candid.md as a function, the argument-sequence
   rule, and the specification-level decoder: parse the header, decode every argument at its wire type,
   coerce to the expected types. *)
From CandidV Require Export model.Wire model.Sub.
From CandidV Require Import Consts.
Open Scope N_scope.

Definition default_of (E : env) (t : ty) : option val :=     (* value of a missing field / argument *)
  match trace E t with
  | Some (TOpt _) => Some (VOpt None)
  | Some (TPrim PNull) => Some VNull
  | Some (TPrim PReserved) => Some VReserved
  | _ => None
  end.

Fixpoint find_val (i : N) (fs : list (N * val)) : option val :=
  match fs with [] => None | (j, v) :: r => if i =? j then Some v else find_val i r end.

(* Ok v' : coerces; Err ESub : no coercion exists; Err EOther : v is not a value of t; OutOfFuel *)
Fixpoint coerce (f : nat) (E : env) (v : val) (t t' : ty) {struct f} : res val :=
  match f with
  | O => OutOfFuel
  | S f' =>
    match trace E t, trace E t' with
    | Some a, Some b =>
      match b with
      | TPrim PReserved => Ok VReserved
      | TOpt t2 =>
          match a with
          | TPrim PNull | TPrim PReserved => Ok (VOpt None)
          | TOpt t1 =>
              match v with
              | VOpt None => Ok (VOpt None)
              | VOpt (Some w) =>
                  match coerce f' E w t1 t2 with
                  | Ok w' => Ok (VOpt (Some w'))
                  | Err ESub => Ok (VOpt None)
                  | o => o
                  end
              | _ => Err EOther
              end
          | _ =>
              match coerce f' E v a t2 with
              | Ok w' => Ok (VOpt (Some w'))
              | Err ESub => Ok (VOpt None)
              | o => o
              end
          end
      | _ =>
        match a, b, v with
        | TPrim PNat, TPrim PInt, VNat n => Ok (VInt (Z.of_N n))
        | TPrim PEmpty, _, _ => Err EOther
        | TPrim p, TPrim q, _ => if prim_eqb p q then Ok v else Err ESub
        | TServ _, TPrim PPrincipal, VService bs => Ok (VPrincipal bs)
        | TVec t1, TVec t2, VVec vs =>
            do ws <- (fix go (vs : list val) : res (list val) :=
                        match vs with
                        | [] => Ok []
                        | w :: r => do w' <- coerce f' E w t1 t2; do r' <- go r; Ok (w' :: r')
                        end) vs;
            Ok (VVec ws)
        | TRec fs1, TRec fs2, VRec vs =>
            do ws <- (fix go (fs2 : list (N * ty)) : res (list (N * val)) :=
                        match fs2 with
                        | [] => Ok []
                        | (i, te) :: r =>
                            do w' <- match find_field i fs1, find_val i vs with
                                     | Some tw, Some w => coerce f' E w tw te
                                     | None, None => match default_of E te with Some d => Ok d | None => Err ESub end
                                     | _, _ => Err EOther
                                     end;
                            do r' <- go r; Ok ((i, w') :: r')
                        end) fs2;
            Ok (VRec ws)
        | TVariant fs1, TVariant fs2, VVariant i w =>
            match find_field i fs1, find_field i fs2 with
            | Some tw, Some te => do w' <- coerce f' E w tw te; Ok (VVariant i w')
            | Some _, None => Err ESub
            | None, _ => Err EOther
            end
        | TFunc _ _ _, TFunc _ _ _, VFunc _ _ => if sub_dec_fast E a b then Ok v else Err ESub
        | TServ _, TServ _, VService _ => if sub_dec_fast E a b then Ok v else Err ESub
        | _, _, _ => Err ESub
        end
      end
    | _, _ => Err EOther
    end
  end.

(* whole argument sequences coerce like tuple-like records: surplus arguments are dropped, missing ones must be optional *)
Fixpoint coerce_args (f : nat) (E : env) (vs : list val) (tws tes : list ty) : res (list val) :=
  match tes with
  | [] => Ok []
  | te :: tes' =>
      match vs, tws with
      | v :: vs', tw :: tws' => do v' <- coerce f E v tw te; do r <- coerce_args f E vs' tws' tes'; Ok (v' :: r)
      | _, _ => match default_of E te with
                | Some d => do r <- coerce_args f E [] [] tes'; Ok (d :: r)
                | None => Err ESub
                end
      end
  end.

Fixpoint dec_vals (f : nat) (E : env) (ts : list ty) (bs : list N) : res (list val * list N) :=
  match ts with
  | [] => Ok ([], bs)
  | t :: r => do vr <- dec_val f E t bs; do rr <- dec_vals f E r (snd vr); Ok (fst vr :: fst rr, snd rr)
  end.

Definition decode_fuel (E : env) (bs : list N) : nat := (2 * (length bs + length E) + 50)%nat.

(* decoding with no expected types: the values at their wire types *)
Definition spec_decode_untyped (bs : list N) : res (env * list ty * list val) :=
  do h <- dec_header max_type_table_len bs;
  let '(Ew, tws, body) := h in
  do vr <- dec_vals (decode_fuel Ew bs) Ew tws body;
  match snd vr with
  | [] => Ok (Ew, tws, fst vr)
  | _ => Err EMal
  end.

(* the same on the table as written (used to check what an encoder emitted against the types it was given) *)
Definition spec_decode_untyped_raw (bs : list N) : res (env * list ty * list val) :=
  do h <- dec_header_raw max_type_table_len bs;
  let '(Ew, tws, body) := h in
  do vr <- dec_vals (decode_fuel Ew bs) Ew tws body;
  match snd vr with
  | [] => Ok (Ew, tws, fst vr)
  | _ => Err EMal
  end.

(* decoding at expected types [tes] over environment [Ee] (names disjoint from the table's) *)
Definition spec_decode (Ee : env) (tes : list ty) (bs : list N) : res (list val) :=
  do d <- spec_decode_untyped bs;
  let '(Ew, tws, vs) := d in
  coerce_args (decode_fuel (Ew ++ Ee) bs) (Ew ++ Ee) vs tws tes.
