(* Annot.v -- IDLValue::annotate_type (types/value.rs) on abstract values, both modes
   (from_parser = true: strict, used before typed encoding; false: liberal opt rules). *)
From CandidV Require Export model.Coerce.
Open Scope N_scope.

Fixpoint annotate (f : nat) (p : bool) (E : env) (v : val) (t : ty) {struct f} : option val :=
  match f with
  | O => None
  | S f' =>
    match trace E t with
    | None => None
    | Some t' =>
      match v, t' with
      | _, TPrim PReserved => Some VReserved
      | VNull, TPrim PNull => Some VNull
      | VBool b, TPrim PBool => Some v
      | VNat _, TPrim PNat => Some v
      | VInt _, TPrim PInt => Some v
      | VNat n, TPrim PInt => Some (VInt (Z.of_N n))
      | VNatN bits _, TPrim q => match prim_bits q with Some (false, b) => if bits =? b then Some v else None | _ => None end
      | VIntN bits _, TPrim q => match prim_bits q with Some (true, b) => if bits =? b then Some v else None | _ => None end
      | VFloat 64 _, TPrim PFloat64 => Some v
      | VFloat 32 _, TPrim PFloat32 => Some v
      | VText _, TPrim PText => Some v
      | VNull, TOpt _ | VReserved, TOpt _ | VOpt None, TOpt _ => Some (VOpt None)
      | VOpt (Some w), TOpt ty =>
          match annotate f' p E w ty with
          | Some w' => Some (VOpt (Some w'))
          | None => if p then None else Some (VOpt None)
          end
      | _, TOpt ty =>
          if p then None
          else if optlike E ty then Some (VOpt None)
          else match annotate f' p E v ty with Some w' => Some (VOpt (Some w')) | None => Some (VOpt None) end
      | VVec vs, TVec ty =>
          option_map VVec
            ((fix go (vs : list val) : option (list val) :=
                match vs with
                | [] => Some []
                | w :: r => match annotate f' p E w ty, go r with Some w', Some r' => Some (w' :: r') | _, _ => None end
                end) vs)
      | VRec fs, TRec ts =>
          option_map VRec
            ((fix go (ts : list (N * ty)) : option (list (N * val)) :=
                match ts with
                | [] => Some []
                | (i, ty) :: r =>
                    match (match find_val i fs with Some w => Some w | None => default_of E ty end) with
                    | Some w => match annotate f' p E w ty, go r with Some w', Some r' => Some ((i, w') :: r') | _, _ => None end
                    | None => None
                    end
                end) ts)
      | VVariant i w, TVariant ts =>
          match find_field i ts with
          | Some ty => option_map (VVariant i) (annotate f' p E w ty)
          | None => None
          end
      | VPrincipal _, TPrim PPrincipal => Some v
      | VService _, TServ _ => Some v
      | VFunc _ _, TFunc _ _ _ => Some v
      | _, _ => None
      end
    end
  end.

Fixpoint vsize (v : val) : nat :=
  S match v with
    | VOpt (Some w) | VVariant _ w => vsize w
    | VVec vs => fold_right (fun w a => vsize w + a)%nat O vs
    | VRec fs => fold_right (fun f a => vsize (snd f) + a)%nat O fs
    | _ => O
    end.
Definition annot_fuel (E : env) (v : val) : nat := (2 * vsize v + 2 * length E + 20)%nat.
Definition annotate_top (p : bool) (E : env) (v : val) (t : ty) : option val := annotate (annot_fuel E v) p E v t.

Fixpoint annotate_args (p : bool) (E : env) (vs : list val) (ts : list ty) : option (list val) :=
  match ts with
  | [] => Some []
  | t :: tr =>
      match vs with
      | v :: vr => match annotate_top p E v t, annotate_args p E vr tr with Some v', Some r => Some (v' :: r) | _, _ => None end
      | [] => None
      end
  end.
