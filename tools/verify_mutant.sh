#!/bin/bash
# usage: verify_mutant.sh <worktree> <mutant-dir> <cargo-package> <demo-file-name-without-.rs> [extra cargo test args]
# Confirms in the scratch worktree: demo passes on the clean tree, fails with the patch; the full suite passes with the patch.
WT=$1; M=$2; PKG=$3; T=$4; shift 4; EXTRA="$@"
export RUSTUP_TOOLCHAIN=stable-x86_64-unknown-linux-gnu RUST_BACKTRACE=0
cd $WT || exit 2
git checkout -q -- rust
case $PKG in candid) D=rust/candid/tests;; candid_parser) D=rust/candid_parser/tests;; ic_principal) D=rust/ic_principal/tests;; *) D=rust/$PKG/tests;; esac
cp $M/$T.rs $D/$T.rs
echo "== clean tree: demo"
cargo test --offline -p $PKG $EXTRA --test $T 2>&1 | grep -E "^test result|error(\[|:)" | head -5
git apply $M/patch.diff || { echo "PATCH DOES NOT APPLY"; rm -f $D/$T.rs; exit 1; }
echo "== patched: demo"
cargo test --offline -p $PKG $EXTRA --test $T 2>&1 | grep -E "^test result|error(\[|:)" | head -5
rm -f $D/$T.rs
echo "== patched: full suite"
cargo nextest run --workspace --no-fail-fast --offline --test-threads 8 2>&1 | grep -E "Summary|FAIL" | head -8
git checkout -q -- rust
echo "== done $M"
