"""Per-property configuration of ./check (which Coq property file, build variants, sharding, rule text)."""
COMMON_ASSUME = [
    "the hand-written Coq model describes the code only as far as the correspondence run of this check exercises it",
    "rustc/cargo, OCaml and the extraction mechanism are trusted to run the two sides faithfully",
]
NOT_APPLICABLE = {}
PROPS = {
    "C14": {
        "claim": "A Coq transcription check_prog of the type checker (check_decs, check_defs, check_cycle, validate_decs, check_actor and the grammar's label / method uniqueness tests) is compared with the implementation on programs that are well-formed by construction (must be accepted) and on single-fault mutants of them (undefined name, duplicate definition, alias cycles of length 1-5 and chains into cycles, duplicate record/variant ids, non-function methods through alias chains at top level and nested, oneway with result, two annotations, duplicate method, main actor that is not a service, constructor over a non-service), plus text-level cases the id-based AST cannot express (hash-colliding names, name vs numeric id, duplicate argument names, shorthand numbering collisions). Coq theorems (closed): every environment check_prog accepts is closed, productive, class-free with unique field ids (wf_env), every name traces to a constructor, the main actor's service type is closed -- i.e. acceptance establishes exactly the hypotheses of the theorems of C03/C04/C05/C10.",
        "note": 'The converse direction (everything well-formed per the spec is accepted) and the exactness for arbitrary programs are established only by the differential run and the must-accept/must-reject predicates; imports (check_file) are not modelled. A direct predicate also runs trace_type / subtype / as_service on every accepted program and requires them to terminate without panic.',
        "props_file": "props/C14.v",
        "shards": (4, 16),
        "rule": 'cases: 120 (x15 thorough) generated programs (0-5 definitions renamed to odd identifiers such as class, return, Self, _x; fields and methods named from a pool of keywords, quoted and non-ASCII names; recursion, aliases, references; actor as service, through a definition, or as service constructor) each with 13 single-fault mutants, and 29 fixed text-level programs. Non-trivial = non-empty environment or any mutant.',
        "assumptions": COMMON_ASSUME,
        "trusted_base": ["modelled, not verified: logos-generated lexer and LALRPOP-generated parser tables/driver (exercised by the fuzz and differential streams only), the pretty crate's layout engine"],
    },
    "C13": {
        "claim": "Fuzzing under catch_unwind, in debug and release builds, of all seven text entry points (program + check_prog, type, type list, init args + check_init_args, value, argument list, test script): token soups over the lexer's alphabet including boundary numerals (4294967295/6, 0X.., long digit strings, odd underscores, malformed floats), malformed escapes, unterminated strings and comments; grammar-directed sentences with one token deleted, duplicated or replaced; nesting up to 128. Coq theorems (closed) for the semantic actions whose arithmetic could go wrong: the record-field numbering with the tuple shorthand (both grammars, compared with the implementation on boundary ids) never wraps: every assigned id is below 2^32, the result is strictly ascending, an unlabelled field after 2^32-1 is an error; and the string sub-lexer accepts everything the printer emits.",
        "note": "The logos DFAs and LALRPOP tables are generated code outside the model: 'no input makes them panic' is supported by the fuzz stream only (a search, not a proof) -- this property is therefore only partially at proof level. Stack depth beyond nesting 128 is out of scope per the property text.",
        "props_file": "props/C13.v",
        "shards": (4, 16),
        "release": True,
        "rule": 'cases: 150 (x15) label lists for the numbering action (ids 2^32-1, 2^32-2, small ids, names, unlabelled fields); 1500 (x15) token soups of 1-14 tokens through a random entry point; 300 (x15) mutated sentences through the program and init-args entry points; deep nesting 10..128 of opt / record / vec through type, program and argument entry points; debug and release. Non-trivial: all fuzz cases.',
        "assumptions": COMMON_ASSUME,
        "trusted_base": ["modelled, not verified: logos-generated lexer and LALRPOP-generated parser tables/driver (exercised by the fuzz and differential streams only), the pretty crate's layout engine"],
    },
    "C12": {
        "claim": 'Direct predicate on the implementation for generated well-typed programs: print with the type-level printer (pretty::candid::compile) and with the syntax-tree printer (syntax::pretty_print), parse and type-check the text, and require the same definition names, every definition and the main service structurally equal to the originals (types::subtype::equal on the merged environments), service_equal on the two texts, and deterministic output. Coq theorems (closed) for what the predicate can only sample: EVERY name the printers emit -- quoted (any Unicode scalars, keywords) or bare -- lexes back to exactly that name, bare names are ASCII identifiers that are not keywords, and the structural-equality decision used for the comparison is correct (eq_dec).',
        "note": "The printers' layout and the grammar above the token level are not modelled in Coq: the program-level round trip is a predicate on generated programs, not a theorem. Environments exported from Rust types are covered by p.c12.export: for every type of the native corpus (incl. non-ASCII and raw-identifier type names) the TypeContainer environment (what export_service! prints) is printed, re-parsed, re-checked and compared definition by definition; this is a predicate over the corpus, not a theorem.",
        "props_file": "props/C12.v",
        "shards": (4, 16),
        "rule": 'cases: 150 (x15) generated programs as for C14 (odd definition names, keyword / quoted / non-ASCII field and method names, recursion, aliases of functions and services, service constructors, with and without main service). Non-trivial = non-empty environment or a main service.',
        "assumptions": COMMON_ASSUME,
        "trusted_base": ["modelled, not verified: logos-generated lexer and LALRPOP-generated parser tables/driver (exercised by the fuzz and differential streams only), the pretty crate's layout engine"],
    },
    "C11": {
        "claim": "Coq theorems (closed, no axioms) over executable models of the printers' escaping (char::escape_debug with the NUL repair, "
                 "ident_string, the two-branch blob printer, pp_num_str) and of the lexer's string/number sub-lexers (logos' longest-match "
                 "rule made explicit): for EVERY list of Unicode scalars and every choice of which scalars are written literally, the "
                 "printed text literal lexes back to exactly its UTF-8 bytes; for EVERY byte string the printed blob lexes back to it; "
                 "digit grouping is undone for digit strings of any length. Both models are compared with the implementation: printer "
                 "output for all scalars below U+0800 (thorough: all 1 112 064), every scalar followed by a hex digit, random and hand-made "
                 "sources with every escape form (valid and malformed), blobs, numbers; and a direct predicate prints generated values "
                 "(Display and Debug), parses them and annotates them with their own types.",
        "note": "The value-level printer/parser (pp_value vs grammar.lalrpop: records, variants, tuple shorthand, opt parenthesisation, "
                "abbreviation threshold, annotations, floats, principals) is NOT modelled: that part is the direct predicate only. Whether a "
                "scalar is printed literally comes from the standard library's Unicode tables (oracle flag per scalar; the theorem holds "
                "for every choice). Float formatting/parsing is Rust std.",
        "props_file": "props/C11.v",
        "shards": (4, 16),
        "rule": "cases: blocks of 64 consecutive scalars printed and lexed (quick: all below U+0800; thorough: all scalars), each scalar "
                "followed by 'a'; random texts from a biased alphabet (NUL, controls, DEL, quotes, backslash, combining marks, bidi, "
                "surrogate-adjacent, non-BMP) as values and as labels; hand-made sources mixing all escape forms incl. malformed ones, "
                "with and without closing quote, as text and as blob; random blobs (ASCII-only and arbitrary); digit strings up to 40 "
                "digits with canonical and odd underscore placement; 600 (x20 thorough) generated values of depth <= 3 with named/"
                "numeric/keyword/odd labels, vectors around the abbreviation threshold, all number types, finite floats, references. "
                "Non-trivial = text of >= 2 scalars, every block, every hand-made source, every value.",
        "assumptions": COMMON_ASSUME,
        "trusted_base": ["modelled, not verified: logos-generated DFAs (the sub-lexers are modelled by their regexes), LALRPOP tables, "
                         "std::char::escape_debug's tables (oracle), f32/f64 Display and FromStr, the pretty crate's layout (whitespace only)"],
    },
    "C10": {
        "claim": 'Coq theorems (closed, no axioms): annotate_type (both modes) returns every inhabitant of t unchanged; M^-1 (M v) = v at every type; coercion at the same type never fails. The annotate model is a transcription of IDLValue::annotate_type and is compared with it on inhabitants, near misses (wrong number width, missing field, unknown tag, wrong reference kind) and mutated types in both modes; a direct predicate checks annotate -> typed encode -> decode at t and with no expected type returns the value.',
        "note": 'Known finding (listed, not fixed): a func/service reference whose signature mentions a record type that reaches itself through record fields does not decode at its own type (replace_empty is applied to the wire side only). Number literals (IDLValue::Number) and the f64->f32 literal conversion are outside the model.',
        "props_file": "props/C10.v",
        "shards": (4, 16),
        "rule": 'cases: per round a random environment and 1-3 (type, inhabitant) pairs: annotate in both modes, the round-trip predicate, a near-miss value in both modes, and annotation at a mutated type in both modes. Non-trivial = value with more than 2 nodes, any near miss, any mutated type.',
        "assumptions": COMMON_ASSUME,
        "trusted_base": ['modelled, not verified: binread (header parser driver), serde visitors of IDLValue, HashMap, RecursionDepth/stacker (not modelled), std::str::from_utf8 (modelled by utf8_valid)'],
    },
    "C04": {
        "claim": "Coq theorem (closed, no axioms), for every closed productive class-free environment with unique field ids: if t <: t' in the co-inductive subtype relation then every value of t coerces to t' (never 'no coercion', never an error) and the result is a value of t' (soundness of subtyping for coercion + well-typedness, spec section Properties); the checker the implementation is compared with decides that relation. On the implementation: whenever subtype accepts (t,t') (random upgrade steps and chains over recursive environments) a generated inhabitant encoded at t must decode at t' to a value that strict annotation at t' accepts unchanged, must equal the model's coercion (c02.decode), and decoding via an intermediate supertype must differ from direct decoding only by opt ~ null.",
        "note": "The theorem is about the model's coercion function (fuel-indexed: the statement allows fuel exhaustion, which arises only for expected types with an opt-only cycle such as type O = opt O). That the Rust decoder implements this coercion is the C02 correspondence. Native Rust types are covered under C08.",
        "props_file": "props/C04.v",
        "shards": (4, 16),
        "rule": "cases: per round a random environment, 1-3 types with inhabitants, two successive random upgrade steps t -> t1 -> t2 (add/remove optional field, add variant case, nat->int, widen to opt/reserved, generalise arguments, specialise results, near misses); soundness and chain predicates, the model's verdict and coercion, and the typed decode compared with spec_decode. Non-trivial: all (every case has a composite or upgraded type).",
        "assumptions": COMMON_ASSUME,
        "trusted_base": ['modelled, not verified: binread (header parser driver), serde visitors of IDLValue, HashMap, RecursionDepth/stacker (not modelled), std::str::from_utf8 (modelled by utf8_valid)'],
    },
    "C03": {
        "claim": "What the encoders emit (IDLArgs::to_bytes_with_types and to_bytes) is decoded on every run by the model's specification-level decoder (header grammar with all side conditions: composite-only table, strictly ascending field ids and method names, methods are functions, indices in range; then M^-1) and the decoded argument types (raw table, compared by the proved structural-equality decision eq_dec) and values must equal the inputs (after strict annotation); typed encoding must refuse near-miss values; encoding is repeated to check determinism. Coq theorems (closed): M^-1 inverts M (so 'decodes back' means 'is the spec encoding'), numbers are minimal (S)LEB128, accepted field lists are exactly the strictly ascending ones, eq_dec decides structural type equality. The encoder's type-table builder itself is modelled as it is (TypeSer.v mirrors TypeSerialize::build_type / encode / serialize, plus the whole typed message) and compared BYTE FOR BYTE with to_bytes_with_types (m.c03.encode); theorems over all environments and argument lists: the builder's map and table stay consistent (dense indices, one key per slot, every slot filled with its key's entry, nothing left under construction), every key is a sub-term of the input, and the written header is read back by the spec's header grammar consuming exactly the header -- a table of composite entries only whose references are primitive codes or indices below the table length (C03_table_invariant, C03_table_within_input, C03_header_reads). The same values are also encoded with every record's fields in descending order (c03.wf.rev).",
        "note": "Not proved: the serializer's type-table builder (TypeSerialize) against the grammar for all inputs -- differential only. Native values (derive / impls.rs) are covered under C01/C08. Untyped to_bytes is only exercised on values whose vectors are uniform (the encoder infers a vector's type from its first element).",
        "props_file": "props/C03.v",
        "shards": (4, 16),
        "rule": 'cases: per round a random environment (0-4 definitions, recursion, aliases incl. aliases of primitives, references every 4th round), 1-3 types (a definition name every third time) with inhabitants; typed encoding and its model check; untyped encoding (uniform values); one near-miss mutation (wrong width, missing field, unknown tag, wrong reference kind, nat as int...) that typed encoding must reject. Non-trivial = some value has more than 2 nodes or is a near miss.',
        "assumptions": COMMON_ASSUME,
        "trusted_base": ['modelled, not verified: binread (header parser driver), serde visitors of IDLValue, HashMap, RecursionDepth/stacker (not modelled), std::str::from_utf8 (modelled by utf8_valid)'],
    },
    "C01": {
        "claim": "Correspondence on a corpus of 110 Rust types (all primitives, 128-bit and big numbers, text, principal, reserved, function / service "
                 "references, Option / Vec / VecDeque / BTreeSet / BTreeMap (14 key x value combinations incl. big-number keys next to non-text keys and "
                 "nested maps) / tuples / arrays / Box / Rc / Arc / ByteBuf / Result, derived structs (named, renamed incl. non-ASCII, tuple, newtype, unit, "
                 "generic), enums (unit / newtype / tuple / struct variants, renamed), recursive and mutually recursive types): every value is obtained by "
                 "natively decoding a message the harness's independent encoder wrote; (1) c01.wf: the bytes the native encoder writes for it are checked BY "
                 "THE MODEL (M^-1 and structural type equality, both proved correct) to be a well-formed message of exactly that abstract value at the "
                 "Rust type's Candid type; (2) c08.native: native decoding returns the specification decoder's value; (3) p.c01.roundtrip: decode(encode x) "
                 "== x (PartialEq, bytes stable, decode_one too, nothing unread); (4) p.c01.history: the same trace (type, bytes, value) on a fresh thread and "
                 "after 1-6 random earlier derivations / encodes / decodes / new builders of other corpus types on the thread. Coq theorems (closed): "
                 "M^-1 (M v) = v for all values/types/depths, little-endian and (S)LEB128 round trips, one ascending field order.",
        "note": "The Rust-type layer itself (serde impls, derive macro output, the type memo) is not modelled in Coq: for it the claim rests on the corpus-driven "
                "correspondence, not on a theorem. History independence is a predicate over sampled histories. HashMap/HashSet are left out (iteration order).",
        "props_file": "props/C01.v",
        "shards": (4, 16),
        "rule": "cases: 3 (x10 thorough) values per corpus type with growing budget, map entries in key order without duplicates, arrays / bounded vectors "
                "within their host limits, big numbers below 2^100; per value one c01.wf, c08.native, p.c01.roundtrip and p.c01.history case. "
                "Non-trivial = the value has more than one node.",
        "assumptions": COMMON_ASSUME,
        "trusted_base": ["modelled, not verified: serde's Deserialize/Serialize impls for std types (serde 1.0.224), the output of candid_derive for the corpus types, the thread-local type memo (types/internal.rs) and TypeId plumbing: all exercised by the corpus, none transcribed to Coq", "the harness's independent encoder (harness/src/val.rs: type table + M with padding knobs) that writes the input messages"],
    },
    "C02": {
        "claim": "The specification-level decoder spec_decode (header grammar with every validation rule incl. replace_empty, M^-1 at the wire types, the coercion relation of spec/Candid.md as a function, the argument-sequence rule) is written in Coq and extracted; Coq theorems (closed, no axioms): M^-1 inverts M at every type for every well-typed value and any trailing input; coercion is well-typed and on well-typed input only yields a value of the expected type, 'no coercion' or fuel exhaustion; coercion at the same type never fails; the reference check inside coercion (sub_dec_fast) decides the co-inductive subtype relation. The implementation's fused decoder is compared with spec_decode through binary_parser::Header (table and argument types), IDLArgs::from_bytes and IDLArgs::from_bytes_with_types on valid messages of random possibly-recursive wire types built by an independent encoder (padded LEBs, unusual table layouts), crossed with identical, upgraded, mutated, unrelated, shorter and longer expected type sequences, on byte-level mutants and on hostile headers.",
        "note": "Not proved: that the Rust deserializer (de.rs, ~1800 lines, fused decode/coerce with back-tracking) equals spec_decode for all inputs -- this equality is differential only; because spec_decode is exact and its meta-theory proved, every disagreement is a failing input. Limits: element counts above 2*10^6 and nesting beyond the model's fuel are skipped; future-typed values are not modelled; the recursion-depth guard is outside the model.",
        "props_file": "props/C02.v",
        "shards": (4, 16),
        "rule": "cases: hostile hand-written headers (bad magic/counts/indices/opcodes, unsorted or duplicate fields and methods, non-function methods, annotations, future types, empty-record cycles, principal limits, padded and over-long LEBs, trailing bytes), then per round a random environment of 0-4 definitions, 0-3 argument types with inhabitants, encoded by the harness's own encoder (optionally padded LEBs); decoded untyped, header-only, and at: the same types, 4 definition-wise/argument-wise mutated variants (extra opt/reserved arg, missing arg, extra non-optional arg), unrelated types; plus 6 byte-level mutants each. Non-trivial = non-empty environment / composite value / any expected-type case; distinct = distinct (op, arguments).",
        "assumptions": COMMON_ASSUME,
        "trusted_base": ['modelled, not verified: binread (header parser driver), serde visitors of IDLValue, HashMap, RecursionDepth/stacker (not modelled), std::str::from_utf8 (modelled by utf8_valid)'],
    },
    "C05": {
        "claim": "Coq theorems (closed, no axioms): the subtype relation is defined co-inductively as the greatest relation closed under ONE "
                 "executable rule function transcribed from spec/Candid.md; the decision procedure sub_dec (finite greatest fixed point over "
                 "sub-term pairs) is proved correct for EVERY environment and pair of types (likewise eq_dec for structural equality); the "
                 "relation is reflexive and closed under the rules; rule application is monotone and local. Transitivity is REFUTED for the "
                 "spec's own rules by a machine-checked witness (known finding). The proved oracle is tied to /repo by a differential run of "
                 "subtype, subtype_with_config, equal, subtype_check_all, service_compatible, service_compatibility_report and service_equal, "
                 "including query sequences sharing one memo, plus direct predicates (reflexivity, equal => subtype both ways, invariance "
                 "under renaming/reordering of definitions and of field lists, report empty iff compatible, history independence, "
                 "transitivity on null-free types). THE ALGORITHM ITSELF: Memo.v mirrors subtype_ / equal_impl as they are (gamma as a set, "
                 "trail, forget_since, left-name-first unfolding, premise order, both probes of the special opt rule, OptReport); "
                 "C05_memo_history / C05_memo_equal_history prove by parameterised co-induction that along EVERY history of queries "
                 "sharing one gamma -- whatever succeeded, failed or was probed before -- each answer equals sub_dec / eq_dec and gamma "
                 "stays inside the relation. The mirror is compared with the code on answers AND the exact final contents of gamma (m.c05.memo).",
        "note": "Not proved: termination of the memoising algorithm (fuel is absorbing and excluded by hypothesis `answered`), the "
                "all-errors variant subtype_collect_ (differential only: c05.checkall / seq_checkall / report_agrees against the proved "
                "oracle). TypeInner::Knot/Unknown and the recursion-depth limit are outside the model; field lookup by HashMap is modelled "
                "as first match (same thing for unique ids). Trusted: Coq kernel, extraction, glue.",
        "props_file": "props/C05.v",
        "shards": (4, 16),
        "rule": "cases: fixed corpus (transitivity witness, stale-memo witness, recursive lists, variants, references) then random "
                "environments of 0-8 definitions (direct/mutual recursion, alias chains, opt/vec-guarded cycles, functions, services) with "
                "pairs related by random upgrade steps, near misses and unrelated types; two-version environments (definition-wise mutated "
                "copies); query sequences in random order with repetitions sharing one Gamma; .did programs through the upgrade entry points "
                "(exercising merge_type renaming); thorough adds exhaustive ordered pairs over a bounded constructor set with <= 2 "
                "definitions. Also: the same recursive type spelled with its name at another point of the cycle (re-anchored definitions), "
                "field / method lists in random (unsorted) order, memo-stress histories through the mirror in all three modes. "
                "Non-trivial = pair mentions a definition, an opt, or has > 4 nodes; distinct = distinct (op, arguments).",
        "assumptions": COMMON_ASSUME + ["Knot (Rust-native recursive types) and Unknown are never generated"],
        "trusted_base": ["modelled, not verified: HashMap/HashSet (as finite maps/sets), RecursionDepth guard (not modelled)"],
    },
    "C16": {
        "claim": "Coq theorems (closed, no axioms) over an executable model of ic_principal's text codec (bitwise CRC-32, value-level RFC 4648 "
                 "base32 without padding with data-encoding's acceptance conditions, dash grouping, case handling, the 29-byte limit read from "
                 "the source): base32 decode.encode = id for every byte string; from_text(to_text p) = p for every principal of <= 29 bytes; "
                 "from_text accepts a text EXACTLY when it is, up to letter case, the canonical text of a principal of <= 29 bytes and returns "
                 "that principal (so wrong checksum, grouping, characters, length are all rejected); one text never denotes two principals. "
                 "Tied to /repo by a differential run with exact error kinds over all <= 1-byte ids, sampled/all 2-byte ids, random ids to 40 "
                 "bytes, and every single-character edit, case change, dash move, deletion and truncation of canonical texts.",
        "note": "Trusted: Coq kernel, extraction, glue. Modelled not verified: crc32fast (modelled bitwise) and data-encoding BASE32_NOPAD "
                "(modelled at the value level); their agreement with the model is established only by the differential run. The binary wire "
                "form (flag, LEB length <= 29) is compared through IDLArgs::from_bytes and Decode!.",
        "props_file": "props/C16.v",
        "shards": (2, 16),
        "rule": "cases: principal byte strings (all of length <= 1, 1/64 (quick) or all (thorough) of length 2, random up to 40, boundary lengths "
                "28-31) through to_text / try_from_slice / from_slice / TryFrom / binary wire form and a round-trip predicate (text, upper-cased text, "
                "Display, Candid text and binary forms); texts: canonical texts and all single-character substitutions over [a-z2-7A-Z0189-], "
                "case flips, dash insertions, deletions, truncations, de-dashed, non-ASCII suffix, random texts. Non-trivial = id of >= 2 bytes / text of >= 8 chars.",
        "assumptions": COMMON_ASSUME,
        "trusted_base": ["modelled, not verified: crc32fast, data-encoding BASE32_NOPAD"],
    },
    "C06": {
        "claim": "Fuzzing, in debug AND release builds, under catch_unwind, of native decoding at every corpus type (110 Rust types) and of untyped decoding: "
                 "valid messages, 3 byte-level mutants each (incl. 10/11-byte LEB128 counts), a message of another type, hostile headers, random bytes with "
                 "and without magic, zero-sized element bombs (vec null / reserved / empty record with counts up to 2^64), nesting 50..40000 of opt and vec, "
                 "over-long LEB128; under 6 quota configurations (none .. (0,0)), full error messages on/off, on 256 KiB thread stacks, with a counting "
                 "allocator bounding bytes allocated by 4 MiB + 256 x input length + 256 x quota; an abort or stack overflow kills the run and is reported "
                 "with the input it was working on. Coq theorems (closed) on the decoder model De.v for ALL inputs: the header parser and every value "
                 "reader only consume; under quota q a successful decode returns at most q value nodes (zero-sized included) and the budget is never "
                 "overdrawn; unterminated LEB128 is an error.",
        "note": "Panic-freedom, stack use and allocation of the real code are runtime behaviours the model cannot exhibit: for them this is a search "
                "(fuzzing), not a proof -- the property is only partially at proof level. The native quota laws (p.c07.native) are evaluated here as well.",
        "props_file": "props/C06.v",
        "shards": (8, 16),
        "release": True,
        "gen_timeout": 3000,
        "rule": "cases: per corpus value 6 inputs x up to 6 configurations + allocation bound + small-stack run; 120 (x10) hostile / random inputs against 13 "
                "representative types and the untyped entry points. All cases non-trivial.",
        "assumptions": COMMON_ASSUME,
        "trusted_base": ["modelled, not verified: serde's Deserialize/Serialize impls for std types (serde 1.0.224), the output of candid_derive for the corpus types, the thread-local type memo (types/internal.rs) and TypeId plumbing: all exercised by the corpus, none transcribed to Coq", "the harness's independent encoder (harness/src/val.rs: type table + M with padding knobs) that writes the input messages"],
    },
    "C07": {
        "claim": "De.v mirrors the deserializer of rust/candid/src/de.rs as it is -- order of unroll_type / check! / add_cost / reads in every "
                 "deserialize_* entry, the primitive-vector, big-number and blob fast paths, the field merge of the struct MapAccess, the variant "
                 "label protocol, recoverable_visit_some (back-tracking keeps the spent budget), deserialize_ignored_any, IDLDeserialize::new_with_config "
                 "/ get_value_with_type / done -- for the IDLValue and IgnoredAny visitors, threading both cost counters; it is compared with "
                 "IDLDeserialize on VALUES AND BOTH COSTS, exactly, for every generated message, expected-type list and quota pair. Coq theorems (closed, no "
                 "axioms) on that model, for all inputs: metering is neutral (a metered run stops on the quota or equals the unmetered run, counters "
                 "included), monotone in both quotas, the cost of a successful decode is independent of the quotas; every value returned or skipped is "
                 "charged >= 1 to the decoding counter and, when skipped, to the skipping counter (so zero-sized elements are not free); the budget is never "
                 "overdrawn, hence under quota q at most q values are returned.",
        "note": "The upper bound against the cost model documented with set_decoding_quota (cost <= 4 x model) is NOT a theorem: it is the predicate  p.c07.mixed: on one IDLDeserialize the marginal cost (both counters) of a natively read argument does not depend on whether the previous argument was read natively or as an untyped value."
                "p.c07.upper on generated messages decoded at their own types (measured worst ratio 3.5). Native (non-IDLValue) visitors are not in the "
                "model; for them the laws are only evaluated as predicates by the checks of C01/C08 where those are claimed. The stack guard is not modelled.",
        "props_file": "props/C07.v",
        "shards": (8, 16),
        "rule": "cases: 120 (x15 thorough) random messages (0-3 arguments over 0-4 recursive definitions, ids partly spelled as names of 1-20 bytes incl. "
                "non-ASCII, optional LEB padding) decoded untyped and at the same / mutated / shortened / extended expected types, each under quota pairs "
                "{none, huge, exact cost, cost-1 on either counter, halves, random}; hostile headers; 2 byte-level mutants per message; vectors of "
                "null / reserved / empty record / every primitive width / nat / int / text / opt of lengths 0,1,2,7,40 decoded at their type, at opt and "
                "reserved supertypes, skipped entirely and under a failing opt. p.c07.laws evaluates neutrality, monotonicity (49 quota pairs around the "
                "measured cost), independence and the lower bound on the implementation alone. Non-trivial = some value has more than one node, or the "
                "expected types differ from the wire types.",
        "assumptions": COMMON_ASSUME,
        "trusted_base": ["modelled, not verified: serde's Visitor plumbing between Deserializer and IDLValueVisitor / IgnoredAny (transcribed from serde 1.0.224), "
                         "the stack guard (RecursionDepth), binread's header reader (its model Wire.dec_header is the one checked by C02)"],
    },
    "C08": {
        "claim": "c08.native: native decoding at each corpus type (110 Rust types, plus &[u8], &str, &Bytes, Cow<str>) is compared with the SPECIFICATION "
                 "decoder (spec_decode, tied to the untyped API by C02 and proved well-typed) on messages whose wire type is the type itself, padded, 3 "
                 "mutated sub/supertypes, 3 look-alikes (text<->blob, nat<->nat8/int/nat64, principal<->blob, bool<->nat8, ...), mutated recursive "
                 "definitions and byte-level mutants; p.c08.agree evaluates the property directly (native ok iff untyped ok at T::ty(), same abstract value); "
                 "for types with host limits (128-bit, bounded vectors, arrays) native may only reject more. Coq theorems (closed) on the shared "
                 "fast-path code as modelled in De.v: the primitive-vector bulk path is guarded by EQUAL fixed-width element types and returns exactly what "
                 "element-by-element decoding returns; likewise the big-number path (only nat/nat, int/int, int/nat) and the blob path; coercion results "
                 "are well-typed.",
        "note": "The native visitors (serde impls, derive output) are not modelled: their agreement is correspondence, not theorem. Known findings (recorded, "
                "not fixed): an empty vector of a mismatching element type is rejected by native maps and byte buffers; native maps need the wire entry to be "
                "exactly record {0;1}.",
        "props_file": "props/C08.v",
        "shards": (4, 16),
        "rule": "cases: per corpus value 1 own-type + 1 padded + 6 mutated / look-alike wire types (non-empty vectors, map entries kept at {0,1}) + 1 "
                "mutated environment + 1 byte mutant; 4 borrowed types x 7 wire types x 6; fixed known-finding streams. Non-trivial = value with more than one "
                "node or any wire type different from the Rust type's.",
        "assumptions": COMMON_ASSUME,
        "trusted_base": ["modelled, not verified: serde's Deserialize/Serialize impls for std types (serde 1.0.224), the output of candid_derive for the corpus types, the thread-local type memo (types/internal.rs) and TypeId plumbing: all exercised by the corpus, none transcribed to Coq", "the harness's independent encoder (harness/src/val.rs: type table + M with padding knobs) that writes the input messages"],
    },
    "C17": {
        "claim": "On every run, for generated checked programs with a main service (recursive and mutually recursive definitions, definitions named like "
                 "JavaScript reserved words incl. class / class_ / return, names needing quotes, non-ASCII and hostile names, service constructors with init "
                 "arguments, references and services nested in records): the generated JavaScript is EXECUTED under node against an abstract IDL builder; the "
                 "type graph it builds for the factory and for init is handed to the model, which decides structural equality with the program (eq_dec, proved "
                 "correct: it decides the co-inductive equality TyEq). c17.order compares chase_actor / infer_rec of bindings/analysis.rs with their Coq model. "
                 "Coq theorems (closed) on that model for ALL environments: every emitted definition uses only names emitted before it or in the set emitted as "
                 "IDL.Rec() first; the emitted list is closed, bound and duplicate-free; the identifier escaping is injective and never yields a reserved word.",
        "note": "The printers above analysis.rs (pp_ty, pp_defs, field / method quoting) are not modelled: that the emitted program rebuilds the right type is "
                "decided per generated program by execution, not proved for all programs.",
        "props_file": "props/C17.v",
        "shards": (4, 16),
        "rule": "cases: 60 (x10 thorough) programs from the generator of C12/C14, each through c17.order, c17.denotes (one node run) and p.c17.idents (const "
                "declarations unique, no reserved word as identifier). Non-trivial = at least one definition.",
        "assumptions": COMMON_ASSUME,
        "trusted_base": ["modelled, not verified: the pretty crate's layout engine, handlebars templates of the Rust binding, the javascript / typescript / motoko / rust printers above the modelled functions (analysis.rs order, identifier escaping, doc-comment escaping, quoting shape)", 'node 20 evaluating the generated JavaScript against harness/js/idl_stub.js (an abstract IDL builder written for this check)', "Rust's char::escape_debug: assumed only through the shape esc_ok, which p.c19.escape_debug establishes exhaustively on every run"],
    },
    "C18": {
        "claim": "Every generated binding is COMPILED and RUN: one scratch crate per program (24 quick / 120 thorough random programs over named labels, recursion, "
                 "references, nested anonymous records / variants / functions / services at several paths, service constructors; plus directed programs with Rust "
                 "keywords, non-ASCII labels, recursion needing Box, Result-shaped variants) in one cargo workspace under /verif/work/c18, built offline with --keep-going; "
                 "each crate prints, for every item the binding defines and for every method's argument and result tuple, the Candid type the derive macro computes "
                 "(TypeContainer-free conversion of CandidType::ty()). The MODEL decides structural equality (eq_dec, proved correct for all environments and types) of "
                 "each source definition with the item named after it, and of each method's argument / result tuple with the source method's; a binding that does "
                 "not compile, an item that is missing, or a type that differs is a violation with the program as replay.",
        "note": "That rustc accepts the text and what the derive macro computes are outside any model: this property is decided per generated program by compiling and "
                "running, the theorem covers only the equality decision. Known findings (recorded, keyed): three name collisions (the property's a_b.c / a.b_c example; "
                "fooBar / foo_bar; an anonymous type named like a definition), numeric non-positional labels (printed as _N_, hashed by name), one-field tuples.",
        "props_file": "props/C18.v",
        "shards": (1, 1),
        "gen_timeout": 3000,
        "rule": "cases: per program one case per reachable definition and two per method with arguments / results. All non-trivial.",
        "assumptions": COMMON_ASSUME,
        "trusted_base": ["rustc and cargo (stable toolchain, offline), candid_derive as compiled, the scratch crate template in harness/src/ops/c18.rs (prints CandidType::ty() of each item)",
                         "the mapping from a source definition to the item compared with it is by the Pascal-cased name"],
    },
    "C19": {
        "claim": "Predicates on generated checked programs (with / without main service, service constructors, keyword / quoted / non-ASCII names) for the "
                 "JavaScript, TypeScript, Motoko (identifier method names, the documented precondition) and Rust generators: each returns (a panic is caught and "
                 "reported), returns the same text on three runs incl. a re-parsed program; the JavaScript evaluates (every name declared before use or "
                 "recursive first); with the main service's methods renamed to unique tokens every method is mentioned exactly as often as the target mentions "
                 "a method; 30 hostile programs whose doc comments and quoted names carry comment terminators, quotes, backslashes, template syntax, line "
                 "separators and attribute syntax followed by a marker: after removing comments and string literals with a lexer of the target language the "
                 "marker never survives as code. Coq theorems (closed): the definition chase is closed / bound / duplicate-free; the TypeScript doc-comment "
                 "escaping (compared with its model on every run) never leaves a comment terminator, for every line; a quoted name escaped character by "
                 "character ends exactly at its closing quote for every name, given the shape esc_ok of each character's escape -- which is checked for "
                 "Rust's escape_debug over all 1,112,064 scalar values, in both positions, on every run.",
        "note": "Totality and determinism of the generators are not theorems (layout engine, templates). TypeScript / Motoko / Rust closure is covered through "
                "the method-mention and injection predicates and, for Rust, by C18's compilation where claimed; no TypeScript or Motoko compiler exists here.",
        "props_file": "props/C19.v",
        "shards": (4, 16),
        "rule": "cases: 40 (x10) programs x 4 targets x {total, methods}, JavaScript closure by execution, 30 hostile programs x 3 targets + 4 for Motoko, "
                "17 blocks covering every scalar value for the escape shape, 73 (x10) doc-comment lines against the model. Non-trivial = a definition or a hostile payload.",
        "assumptions": COMMON_ASSUME,
        "trusted_base": ["modelled, not verified: the pretty crate's layout engine, handlebars templates of the Rust binding, the javascript / typescript / motoko / rust printers above the modelled functions (analysis.rs order, identifier escaping, doc-comment escaping, quoting shape)", 'node 20 evaluating the generated JavaScript against harness/js/idl_stub.js (an abstract IDL builder written for this check)', "Rust's char::escape_debug: assumed only through the shape esc_ok, which p.c19.escape_debug establishes exhaustively on every run"],
    },
    "C20": {
        "claim": "For generated environments (recursive, mutually recursive, aliases, references) and 1-3 argument types, 10 configurations (default; small, zero and "
                 "negative depth / size; widths 0-5; ranges incl. degenerate and partly out of the type's range; text kinds ascii / emoji / name / path / name.cn) and "
                 "seeds of 0, 1, 7, 64, 512, 2048 bytes (exhausted entropy included): random::any returns an error or values; every value returned is handed to "
                 "the MODEL's has_type (c20.inhabits); p.c20.inhabits checks on the implementation that each value annotates unchanged in both modes, encodes at "
                 "the requested types and decodes back; p.c20.bounds that vectors / texts respect the configured width and numbers the configured range; "
                 "p.c20.config_value that values supplied through the configuration are returned only if they have the type; invalid configurations, the type "
                 "empty, variants with no or only empty alternatives, and types without finite values (type A = variant { a : A }, in a child process) give an "
                 "error, never a panic. Coq theorems (closed), for ALL values: an inhabitant (has_type) annotates unchanged in both modes, and whatever it "
                 "encodes to decodes back to it.",
        "note": "random::any, arbitrary::Unstructured and the fake crate are not modelled: that generation terminates within the configured depth and size is "
                "observed (every case returns), not proved; the exact values are not predicted by the model.",
        "props_file": "props/C20.v",
        "shards": (4, 16),
        "rule": "cases: 40 (x10 thorough) environments x 10 configurations, each with 4 ops; 16 configured-value cases; 25 invalid configurations; 48 cases on types "
                "without values. Non-trivial: all (every case has a structured type or a hostile configuration).",
        "assumptions": COMMON_ASSUME,
        "trusted_base": ["modelled, not verified: candid_parser::random (generation strategy, budgets), candid_parser::configs (configuration tree), arbitrary 1.3.2, fake, rand",
                         "has_type (model/Val.v) is the definition of inhabitant the theorems and the check share; its agreement with the implementation's annotate / encode is what C03 and C10 check"],
    },
    "C09": {
        "claim": "Coq theorems (closed, no axioms) over executable mirrors of every (S)LEB128 codec in the code: Nat::decode, Int::decode, the "
                 "typed deserializer's 9-byte fast paths with their fall-backs, and the 128-bit decoders map EVERY terminated byte string of ANY "
                 "length and padding to exactly its mathematical value and rest (128-bit: exactly when in range, in debug and release, never a panic); "
                 "unterminated input is an error; the spec encoders are value-correct, terminated and minimal, and the leb128-crate loops, the "
                 "128-bit encoders and Nat::encode (both branches) equal them. The mirrors are tied to /repo by a differential run of all "
                 "decoders/encoders standalone and inside messages, vectors and maps (debug and release).",
        "note": "Not proved: Int::encode's big-number branch (bit repacking of to_signed_bytes_le) equals the spec encoder -- tied by the "
                "differential run only (every +-2^k+-2 up to 2^200 and random values). Trusted: Coq kernel, extraction, glue. Modelled not "
                "verified: num-bigint radix/byte conversions, leb128 crate, io::Cursor.",
        "props_file": "props/C09.v",
        "shards": (4, 16),
        "release": True,
        "rule": "cases: every 1-byte string and (thorough: every, quick: 1/16 of) 2-byte strings through all decoders; all 2^24 3-byte strings as "
                "digests of 65536 results (thorough: 256 digests per decoder spread over shards); boundary families of length 7-11, 17-22, 37 "
                "with every sign/padding/continuation pattern; random terminated strings up to 40 bytes, unterminated strings; strings inside "
                "Vec<Nat>, Vec<Int>, BTreeMap<u8,Int> and IDLValue; integers +-2^k+{-2..2} for k<=200 and random ones through all encoders and a "
                "round-trip predicate; debug and release builds. Non-trivial = multi-byte string / value above 62 bits; distinct = distinct (op, arguments).",
        "assumptions": COMMON_ASSUME + ["num-bigint to_radix_le/from_radix_le/to_signed_bytes_le and the leb128 crate are modelled by their documented behaviour"],
        "trusted_base": ["modelled, not verified: num-bigint (to_radix_le, from_radix_le, to_signed_bytes_le, to_u64/to_i64), leb128 crate write::{unsigned,signed}, std::io::Cursor"],
    },
    "C15": {
        "claim": "Coq theorems (closed, no axioms) over the executable model: the code's hash (constants read from both Rust copies on every run) "
                 "equals the spec polynomial for every byte string; the two copies are one function; label eq/order/hash factor through the id; "
                 "sort+check_unique accepts exactly duplicate-free id lists and what it accepts is exactly what the header parser's ascending test "
                 "accepts. Tied to /repo by a differential run through idl_hash, Label, both text parsers, the binary header, derive and "
                 "record!/variant!, plus a direct cross-form predicate.",
        "note": "Trusted: Coq kernel, extraction (ExtrOcamlBasic), driver.ml/harness glue, tools/consts.py. Modelled not verified: logos/LALRPOP "
                "generated code, sort_unstable_by_key. The derive macro's hash copy is tied by its literal constants (translator) and by the "
                "field order of ty() on a fixed corpus.",
        "props_file": "props/C15.v",
        "shards": (2, 16),
        "rule": "cases: label strings (ASCII identifiers, Candid keywords, arbitrary Unicode scalars, numeric-looking names, known "
                "hash-colliding pairs) and ids over 0..2^32 through idl_hash, Label eq/cmp/hash, the .did type parser, the text value "
                "parser, the binary header parser, derive(CandidType) and record!/variant!; plus the cross-form predicate "
                "(encode with names, decode against ids and back). Non-trivial = the case hashes a name of >= 2 bytes; "
                "distinct = distinct (op, arguments).",
        "assumptions": COMMON_ASSUME + ["derive(CandidType) hash copy is observed through the field order of ty() on a fixed corpus of derived types"],
        "trusted_base": ["modelled, not verified: logos/LALRPOP generated lexer+parser (only their label actions are modelled), "
                         "sort_unstable_by_key (modelled as insertion sort; equal keys are rejected afterwards so stability is irrelevant)"],
    },
}
