"""Per-property configuration of ./check (which Coq property file, build variants, sharding, rule text)."""
COMMON_ASSUME = [
    "the hand-written Coq model describes the code only as far as the correspondence run of this check exercises it",
    "rustc/cargo, OCaml and the extraction mechanism are trusted to run the two sides faithfully",
]
PROPS = {
    "C15": {
        "props_file": "props/C15.v",
        "shards": (2, 16),
        "rule": "cases: label strings (ASCII identifiers, Candid keywords, arbitrary Unicode scalars, numeric-looking names, known "
                "hash-colliding pairs) and ids over 0..2^32 through idl_hash, Label eq/cmp/hash, the .did type parser, the text value "
                "parser, the binary header parser, derive(CandidType) and record!/variant!; plus the cross-form predicate "
                "(encode with names, decode against ids and back). Non-trivial = the case hashes a name of >= 2 bytes; "
                "distinct = distinct (op, arguments).",
        "assumptions": COMMON_ASSUME + ["derive(CandidType) hash copy is observed through the field order of ty() on a fixed corpus of derived types"],
        "trusted_base": ["modelled, not verified: logos/LALRPOP generated lexer+parser (only their label actions are modelled), "
                         "sort_unstable_by_key (modelled as insertion sort; equal keys are rejected afterwards so stability is irrelevant)"],
    },
}
