#!/usr/bin/env python3
"""Regenerate MANIFEST.json from tools/props.py (claimed properties) and properties.jsonl (the rest -> not_applicable)."""
import json, os, sys
ROOT = os.path.join(os.path.dirname(os.path.abspath(__file__)), "..")
sys.path.insert(0, os.path.dirname(os.path.abspath(__file__)))
from props import PROPS, NOT_APPLICABLE
props = [json.loads(l) for l in open(os.path.join(ROOT, "properties.jsonl"))]
checks = []
for pid in sorted(PROPS):
    c = PROPS[pid]
    checks.append({
        "property_id": pid,
        "quick_cmd": "./check %s --tier quick" % pid,
        "thorough_cmd": "./check %s --tier thorough" % pid,
        "evidence_file": "evidence/%s.json" % pid,
        "replay_cmd_template": "./check %s --replay {path}" % pid,
        "engine": "coq-proof+correspondence",
        "level_claimed": {"category": "proof", "text": c["claim"], "design_ref": "DESIGN.md section 5, %s" % pid},
        "level_note": c["note"],
        "technique": c.get("technique", "machine-checked proof in Coq 8.16 + differential correspondence (extracted model vs Rust)"),
    })
man = {
    "version": 1,
    "setup_cmd": "./setup.sh",
    "hooks": {"guard": "candid_verif",
              "enable": "RUSTFLAGS=\"--cfg candid_verif\" (set in harness/.cargo/config.toml); no hook is needed: everything observed is public API",
              "baseline_off_cmd": "cd /repo && RUSTUP_TOOLCHAIN=stable-x86_64-unknown-linux-gnu cargo nextest run --workspace --no-fail-fast --offline",
              "source_commits": [], "add_only": True},
    "engines": [{"name": "coq-proof+correspondence", "path": "check", "serves_properties": sorted(PROPS),
                 "kind_free_text": "Coq 8.16.1 development coq/ (model, proofs, props), extracted to OCaml (coq/extract) and compared with the Rust "
                                   "crates through harness/ on generated inputs; direct property predicates on the implementation for the violation search"}],
    "checks": checks,
    "notes": "Properties are moved from not_applicable to checks as their model, theorems and correspondence land.",
    "not_applicable": [{"property_id": p["id"], "reason": NOT_APPLICABLE.get(p["id"],
                        "not claimed yet: model/theorems/correspondence for this property are still being built (DESIGN.md section 8 gives the order of work)")}
                       for p in props if p["id"] not in PROPS],
}
json.dump(man, open(os.path.join(ROOT, "MANIFEST.json"), "w"), indent=1)
print("claimed:", sorted(PROPS))
