import json
props={}
for l in open('/verif/properties.jsonl'):
    d=json.loads(l); props[d['id']]=d
api={
'C05':"`candid::types::subtype::{subtype, subtype_with_config, subtype_check_all, equal, Gamma, OptReport}`, `candid::TypeEnv`, `candid_parser::utils::{service_compatible, service_compatibility_report, service_equal, CandidSource}`, `candid_parser::{IDLProg, check_prog}`",
'C15':"`candid::idl_hash`, `candid::types::Label`, `candid_parser::{IDLProg, check_prog, parse_idl_args}`, derive macros `CandidType`, `IDLValue` printing",
'C02':"`candid::{IDLArgs, IDLValue, TypeEnv, types::Type}`, `IDLArgs::from_bytes`, `IDLArgs::from_bytes_with_types`, `IDLArgs::to_bytes`, `IDLArgs::to_bytes_with_types`, `candid::de::IDLDeserialize`, `candid::ser::IDLBuilder`, `candid::{Encode, Decode, encode_args, decode_args}`; hand-written byte messages (`hex`) are fine",
'C09':"`candid::{Nat, Int}`, `Nat::decode/encode`, `Int::decode/encode`, `candid::types::leb128::{encode_nat, encode_int, decode_nat, decode_int}`, `candid::{Encode, Decode}` with u64/i64/u128/i128/Nat/Int, `IDLArgs::from_bytes`, hand-written byte messages",
'C03':"`candid::{IDLArgs, IDLValue, TypeEnv, types::Type}`, `IDLArgs::from_bytes_with_types`, `IDLArgs::from_bytes`, `IDLArgs::to_bytes_with_types`, `IDLArgs::annotate_types`, `candid_parser::{IDLProg, check_prog, parse_idl_args}` to build types/values from text",
'C11':"`candid_parser::{parse_idl_args, parse_idl_value}`, `candid::{IDLArgs, IDLValue}` Display/`to_string()`, `candid::pretty::candid::{pp_args, pp_value? (see source)}`, `IDLArgs::annotate_types`, `candid_parser::{IDLProg, check_prog}`",
'C14':"`candid_parser::{IDLProg, check_prog, check_file}`, `candid_parser::typing::*`, `candid::TypeEnv`, `candid::types::{Type, TypeInner}`, `str::parse::<IDLProg>()`",
'C16':"`candid::Principal` (= `ic_principal::Principal`): `from_text`, `to_text`, `from_slice`, `try_from_slice`, `Display`, `FromStr`, serde/CandidType round trips via `candid::{Encode, Decode}`",
'C04':"`candid::{IDLArgs, IDLValue, TypeEnv, types::Type}`, `candid::types::subtype::{subtype, Gamma}`, `IDLArgs::from_bytes_with_types`, `IDLArgs::to_bytes_with_types`, `candid_parser::{IDLProg, check_prog, parse_idl_args}`",
'C10':"`candid::{IDLArgs, IDLValue, TypeEnv, types::Type}`, `IDLArgs::annotate_types`, `IDLValue::annotate_type`, `IDLArgs::to_bytes_with_types`, `IDLArgs::from_bytes_with_types`, `candid_parser::{IDLProg, check_prog, parse_idl_args}`",
'C12':"`candid_parser::{IDLProg, check_prog}`, `candid::pretty::candid::compile`, `candid_parser::syntax::pretty_print` (see source), `candid_parser::utils::{service_equal, CandidSource}`, `candid::types::subtype::equal`",
'C13':"`str::parse::<candid_parser::IDLProg>()`, `candid_parser::{parse_idl_args, parse_idl_value, parse_idl_type, parse_idl_init_args?}` (see rust/candid_parser/src/lib.rs for the exact names), `candid_parser::check_prog`, test-script parser under `candid_parser::test`",
'C01':"`candid::{Encode, Decode, encode_args, decode_args, encode_one, decode_one, CandidType, Deserialize, Nat, Int, Principal, Reserved, Empty, Func, Service}`, derive macros, std collections (Vec, BTreeMap, HashMap, BTreeSet, Option, Box, tuples)",
'C06':"`candid::{Decode, decode_args, decode_args_with_config, DecoderConfig, IDLArgs}`, `candid::de::IDLDeserialize::{new, new_with_config, get_value, get_value_with_type, done}`, `IDLArgs::from_bytes*`; hand-written byte messages",
'C07':"`candid::{DecoderConfig, decode_args_with_config, decode_args_with_config_debug (see source), Decode}`, `candid::de::IDLDeserialize::{new_with_config, get_value, get_config, done}`, `DecoderConfig::{set_decoding_quota, set_skipping_quota, compute_cost}`",
'C08':"`candid::{Decode, decode_args, decode_one, IDLArgs, IDLValue, CandidType, Deserialize, Nat, Int, Principal}`, `IDLArgs::from_bytes_with_types`, `candid::types::bounded_vec::*`, `serde_bytes`, std collections; hand-written byte messages",
'C17':"`candid_parser::{IDLProg, check_prog}`, `candid_parser::bindings::javascript::compile`; node 20 is on PATH (`node`), so a demo may evaluate the generated JS against a tiny stub IDL builder",
'C18':"`candid_parser::{IDLProg, check_prog}`, `candid_parser::bindings::rust::{compile, emit_bindgen, Config, ExternalConfig}` (see source for exact signatures), `candid_parser::configs::Configs`, `candid_parser::utils::check_rust_type`",
'C19':"`candid_parser::{IDLProg, check_prog}`, `candid_parser::bindings::{javascript, typescript, motoko, rust}::compile`",
'C20':"`candid_parser::random::{any, RandomConfig}` (see source for exact signatures), `candid_parser::configs::{Configs, ConfigState}`, `candid::{IDLArgs, TypeEnv}`, `IDLArgs::annotate_types`, `IDLArgs::to_bytes_with_types`",
}
hints={
'C05':"e.g. a particular shape of recursive types, a multi-step sequence of queries sharing one memo (Gamma), a particular order of fields/methods, a failed probe followed by another query, two cooperating sites that each look fine alone",
'C15':"e.g. a particular label spelling (non-ASCII, digits, leading zeros, 0x prefixes), a hash collision, a boundary of the 32-bit id space, a particular API surface (derive macro vs parser vs value printer)",
'C02':"e.g. a particular wire-type shape (recursive table entries, forward references, opt of a type that decodes to error, surplus fields in a nested record, a LEB-padded count, an empty-record cycle), a particular combination of expected vs wire type, or a boundary in a length/limit check",
'C09':"e.g. a value at a specific bit-width boundary, a padded/over-long encoding, a particular sign/continuation-bit combination, a particular integer width (u64 vs u128 vs big), debug vs release",
'C03':"e.g. a particular combination of wire type and expected type (opt over mismatching payload, variant with surplus tags, missing optional field, reserved, recursive expected type), so that the decoded value no longer has the expected type or differs from the spec's coercion",
'C11':"e.g. a particular character class (control characters, quotes, backslash, non-BMP code points, DEL), a particular number shape (negative zero, underscores, exponents, big numbers), blob vs vec nat8, a label that is a keyword or a number",
'C14':"e.g. a particular position of the ill-formed construct (nested inside opt/vec/func args, reached via an alias chain, only in the actor, only in init args), a particular cycle length, a hash collision between labels, a method through an alias",
'C16':"e.g. a particular length (0, 1, 29 bytes), a particular byte pattern or checksum value (leading zero bytes), group boundaries in the textual form, upper/lower case, a particular error kind",
'C04':"e.g. a particular combination of subtype rule and coercion path (opt special cases, record with missing optional field, function/service references, recursive types)",
'C10':"e.g. a particular value/type shape: opt nesting, variant index, number annotation (Number to nat/int/float), blob vs vec nat8, references, recursive type through alias",
'C12':"e.g. a particular name needing quotes, a keyword-named definition, a nested func inside a service inside a record, an init-args service constructor, tuple-shorthand records, a particular annotation combination",
'C13':"e.g. a particular token at a particular grammar position, a numeric boundary in a semantic action, a specific escape sequence, an unterminated construct at end of input",
'C01':"e.g. a particular combination of container and element/key type (map with Int key, Vec<Nat>, nested Option, recursive enum, generic struct), a particular history of earlier encode/decode calls on the same thread",
'C06':"e.g. a particular header shape or count, a particular expected type (u128, zero-sized elements), a particular config (quota set/unset, full error message), debug vs release",
'C07':"e.g. a particular decoding path that forgets to charge (skipped surplus field, zero-sized vec elements, opt fallback after a failed attempt, map entries, blob fast path), or a quota comparison off by one that changes the result near the measured cost",
'C08':"e.g. a particular Rust type (BTreeMap<String,_>, Vec<u8>/&[u8], Vec<Nat>, BoundedVec, [T;N]) crossed with a particular wire type (text vs blob, nat vs nat8, subtype with surplus fields)",
'C17':"e.g. a recursive type reached only from init args, a definition named like a JS keyword, a method name needing quotes, a particular ordering dependence between definitions, a service reference inside a record",
'C18':"e.g. names colliding after case conversion, a Rust keyword label, a numeric label, nested anonymous variant inside func args, recursion through opt/vec needing Box",
'C19':"e.g. a doc comment containing a comment terminator for one target language, a quoted name with a newline or template syntax, a program without main service, a type referenced only from init args",
'C20':"e.g. a recursive type with a particular shape (mutual recursion through variant with only recursive arms at depth limit), a particular config (range with bounds, text kind, width), exhausted entropy, a value supplied via config",
}
for pid,d in props.items():
    if pid not in hints: continue
    wt='/tmp/wt_'+pid.lower()
    files=", ".join(d['anchors']['files'])
    p=f"""You are helping evaluate a verification framework by producing realistic *seeded bugs* in the Rust repository dfinity/candid. Work ONLY inside the git worktree {wt} (a checkout of the repo). Do NOT read or use anything under /verif or /repo (the main checkout) -- your work must be independent of them.

The semantic property to break (read it carefully):

---
{pid}: {d['title']}

{d['statement']}

Quantified over: {d['quantifier']['text']}

Anchored in: {files}
---

Task: produce TWO different small source changes (each independently, each as its own patch against the worktree's HEAD) to the Rust crates under {wt}/rust that each BREAK this property, while (a) the workspace still compiles and (b) the existing test suite still passes. Each change should look like a plausible maintainer mistake / refactor / optimisation (not sabotage with magic constants), and it should need something SPECIFIC to manifest -- {hints[pid]} -- not something any ordinary use exposes at once. Make the two mutants different in kind (different mechanism / different code site).

For each mutant also write a demonstration: a small Rust integration test file (placed under rust/candid/tests/ or rust/candid_parser/tests/ or rust/ic_principal/tests/) that FAILS with the change applied and PASSES on the unmodified tree.

Practical notes for this sandbox (no network, be economical with time -- aim to finish within about 45 minutes, do not explore more than you need):
- Always run cargo as: `cd {wt} && RUSTUP_TOOLCHAIN=stable-x86_64-unknown-linux-gnu cargo <cmd> --offline` (the explicit toolchain avoids a download attempt). Never run a command without a timeout that could hang; prefer `timeout 1200 ...`.
- Existing test suite command: `cd {wt} && RUSTUP_TOOLCHAIN=stable-x86_64-unknown-linux-gnu timeout 1500 cargo nextest run --workspace --no-fail-fast --offline --test-threads 8` (194 tests must pass). The first full build takes a few minutes.
- Public API you can use in demos: {api[pid]}.

Deliverables: create directories {wt}/MUTANT1 and {wt}/MUTANT2, each containing:
- `patch.diff` : `git diff` of ONLY the source change (not the demo), relative to the worktree root, applicable with `git apply`;
- the demonstration test file, plus `demo_cmd.txt` with the exact command to run the demo and where the demo file must be placed;
- `README.md`: what the change is, why it breaks the property, what specific situation is needed for it to manifest, and the evidence you observed (demo fails with patch / passes without; full suite passes with patch: paste the summary lines).
Before finishing, make sure the worktree's tracked source files are back to the unmodified state (`git -C {wt} checkout -- rust`), leaving only the MUTANT1/MUTANT2 directories (untracked). In your final answer, summarise both mutants in a few lines each (file/function changed, what manifests it, demo file name and cargo package).
"""
    open('/tmp/agent_prompts/%s.txt'%pid,'w').write(p)
print(open('/tmp/agent_prompts/C16.txt').read()[:600])