#!/bin/bash
# usage: try_mutant.sh <worktree> <mutant-dir-name> <cargo-package> <demo-name> <prop> [<prop>...]
# 1. confirm the seeded change in the scratch worktree (demo passes clean / fails patched / suite passes patched)
# 2. apply it to /repo, run the registered quick checks of the given properties, undo it straight afterwards
WT=$1; M=$2; PKG=$3; T=$4; shift 4
/verif/tools/verify_mutant.sh $WT $WT/$M $PKG $T $EXTRA_ARGS 2>&1 | tail -8
cd /repo || exit 2
git -C /repo status --short | grep -v '^??' | head -3
git -C /repo apply $WT/$M/patch.diff || { echo "APPLY TO /repo FAILED"; exit 1; }
for P in "$@"; do
  echo "== ./check $P with $M applied"
  (cd /verif && ./check $P 2>&1 | grep -E "VIOLATION|KNOWN|quick:|error|FAIL" | cut -c1-400 | head -12)
done
git -C /repo checkout -- .
git -C /repo status --short | grep -v '^??' | head -3
echo "== reverted"
