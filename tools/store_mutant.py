#!/usr/bin/env python3
"""store_mutant.py <name> <property> <mutant-dir> <caught-by> <needs> : copy a confirmed seeded change into /verif/seeded/<name>/"""
import json, os, shutil, sys
name, prop, src, caught, needs = sys.argv[1:6]
dst = os.path.join("/verif/seeded", name)
os.makedirs(dst, exist_ok=True)
for f in os.listdir(src):
    shutil.copy(os.path.join(src, f), os.path.join(dst, f))
meta = {
    "property": prop,
    "needs_to_manifest": needs,
    "confirmed": "in a scratch worktree: demonstration passes on the unmodified tree and fails with patch.diff applied; "
                 "the full baseline suite (cargo nextest, 194 tests) passes with patch.diff applied",
    "ran": "tools/verify_mutant.sh (scratch worktree); then: git -C /repo apply patch.diff; ./check %s --tier quick; git -C /repo checkout -- ." % prop,
    "detected_by": caught,
    "origin": "independent sub-agent given only the property text and a scratch worktree",
}
json.dump(meta, open(os.path.join(dst, "meta.json"), "w"), indent=1)
print("stored", dst)
