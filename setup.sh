#!/bin/sh
# Build the verification framework from files on disk only (offline).
set -e
cd "$(dirname "$0")"
export CARGO_NET_OFFLINE=true
export RUSTUP_TOOLCHAIN="${VERIF_TOOLCHAIN:-stable-x86_64-unknown-linux-gnu}"
mkdir -p work evidence replays
python3 tools/consts.py
( cd coq && coq_makefile -f _CoqProject -o Makefile >/dev/null && timeout 3000 make -j16 )
( cd coq/extract && coqc -Q .. CandidV Extract.v >/dev/null && \
  ocamlfind ocamlopt -w -a -package zarith -linkpkg model.mli model.ml driver.ml -o model_runner )
[ -f harness/Cargo.lock ] || cp /repo/Cargo.lock harness/Cargo.lock
( cd harness && cargo build --offline --quiet && cargo build --offline --quiet --release )
echo setup-ok
